"""Shared scenario runner for C07 / C16: real transactional AIOKafkaProducer(s) on the simulated
cluster.  A program is a list of steps executed in order; every step's outcome is recorded."""
import asyncio
import contextvars
import random

from vlib import simloop
from vlib.simkafka import Cluster
from vlib.simloop import Cyclic

from . import _consumer_sim as CS

_SHIMMED = [False]
CLIENT_TAG = contextvars.ContextVar("verif_client_tag", default=None)


def setup():
    import aiokafka  # noqa
    import aiokafka.producer.producer  # noqa
    import aiokafka.consumer.consumer  # noqa
    simloop.install_time_shim()
    _SHIMMED[0] = True


class TaggedNet(simloop.Net):
    """Connections remember which simulated process opened them, so a process can be killed."""

    def __init__(self, *a, **k):
        super().__init__(*a, **k)
        self.dead_tags = set()

    async def connect(self, loop, protocol_factory, host, port):
        tag = CLIENT_TAG.get()
        if tag in self.dead_tags:
            await loop.create_future()
        tr, proto = await super().connect(loop, protocol_factory, host, port)
        tr._peer.tag = tag
        return tr, proto

    def kill(self, tag):
        self.dead_tags.add(tag)
        for sc in self.connections:
            if getattr(sc, "tag", None) == tag and not sc.closed:
                sc.blackhole()
                sc._notify_disconnect()
        for t in asyncio.all_tasks(self.loop):
            try:
                ctx = t.get_context()
            except Exception:
                continue
            if ctx.get(CLIENT_TAG) == tag and not t.done():
                t.cancel()


class Obs:
    def __init__(self):
        self.steps = []          # dicts: step, outcome, t_call, t_return, txn (harness counter), proc
        self.sends = []          # dicts: id, txn, proc, partition, value, accepted, outcome
        self.txns = []           # harness view: dict(n, proc, began, end_call, end_outcome, offsets)
        self.cluster = None
        self.deadlock = None
        self.notes = []
        self.start_errors = []
        self.final = {}
        self.vtime = 0.0
        self.hung = False
        self.killed = []
        self.t_quiet = None
        self.bound = None
        self.leftover = None
        self.group_offsets = {}


def tpk(t, p):
    return "%s:%d" % (t, p)


class Proc:
    """One producer instance ("process")."""

    def __init__(self, tag):
        self.tag = tag
        self.producer = None
        self.txn_no = None
        self.dead = False
        self.stragglers = []
        self.batches = []       # builders made with create_batch(), waiting for their send_batch step


async def _start_producer(case, c, tag):
    from aiokafka import AIOKafkaProducer
    cfg = case["cfg"]
    p = AIOKafkaProducer(bootstrap_servers=c.bootstrap(), transactional_id=cfg.get("transactional_id", "tx"),
                         request_timeout_ms=cfg["request_timeout_ms"], retry_backoff_ms=cfg["retry_backoff_ms"],
                         max_batch_size=cfg.get("max_batch_size", 400), linger_ms=cfg.get("linger_ms", 0),
                         transaction_timeout_ms=cfg.get("transaction_timeout_ms", 60000),
                         metadata_max_age_ms=cfg.get("metadata_max_age_ms", 5000), client_id=tag)
    await p.start()
    return p


async def _main(case, obs, loop, net):
    from aiokafka.errors import KafkaError, IllegalOperation
    from aiokafka.structs import TopicPartition

    cfg = case["cfg"]
    cl = case["cluster"]
    random.seed(case["rng_seed"])
    c = Cluster(loop, net, n_nodes=cl["nodes"])
    obs.cluster = c
    c.add_topic("t0", cl["partitions"], leaders=cl.get("leaders"))
    if cl.get("second_topic"):
        # a second topic (send partition index >= 100 addresses t1): lets one AddPartitionsToTxn carry an
        # unauthorized topic next to authorized ones
        c.add_topic("t1", 1, leaders=cl.get("leaders"))
    c.txn_coord_node = cl.get("txn_coord", 0) % cl["nodes"]
    c.group_coord_node = cl.get("group_coord", 0) % cl["nodes"]
    if case.get("marker_delays"):
        c.txn.marker_delay = Cyclic(case["marker_delays"])
    c.set_faults(case.get("faults", []))
    c.schedule(case.get("env", []))
    bound = 20 * cfg["request_timeout_ms"] / 1000.0 + 60 * cfg["retry_backoff_ms"] / 1000.0 + 10.0
    obs.bound = bound
    counters = {"txn": 0, "send": 0}
    procs = {}

    async def call(proc, step, coro_fn, rec_extra=None):
        rec = {"step": step, "proc": proc.tag, "t_call": loop._vtime, "txn": proc.txn_no}
        if rec_extra:
            rec.update(rec_extra)
        obs.steps.append(rec)
        try:
            res = await coro_fn()
            rec["outcome"] = ("ok",)
            rec["result"] = res
        except asyncio.CancelledError:
            rec["outcome"] = ("cancelled",)
            rec["t_return"] = loop._vtime
            raise
        except (KafkaError, IllegalOperation, AssertionError, ValueError) as e:
            rec["outcome"] = ("raised", type(e).__name__, repr(e))
        except Exception as e:
            rec["outcome"] = ("raised", type(e).__name__, repr(e))
            rec["unexpected"] = True
        rec["t_return"] = loop._vtime
        return rec

    def track_send(proc, part, fut, srec):
        srec["accepted"] = True

        def cb(f):
            srec["t_done"] = loop._vtime
            if f.cancelled():
                srec["outcome"] = ("cancelled",)
            elif f.exception() is not None:
                srec["outcome"] = ("error", type(f.exception()).__name__)
            else:
                r = f.result()
                srec["outcome"] = ("ok", r.partition, r.offset)
        fut.add_done_callback(cb)

    async def run_steps(proc, steps):
        for st in steps:
            if proc.dead:
                return
            kind = st[0]
            p = proc.producer
            if kind == "sleep":
                await asyncio.sleep(st[1])
            elif kind == "begin":
                r = await call(proc, "begin", p.begin_transaction)
                if r["outcome"][0] == "ok":
                    counters["txn"] += 1
                    proc.txn_no = counters["txn"]
                    obs.txns.append({"n": proc.txn_no, "proc": proc.tag, "t_begin": loop._vtime, "end": None,
                                     "offsets": None, "sends": []})
                    r["txn"] = proc.txn_no
            elif kind == "send":
                topic = "t0"
                part = st[1] % cl["partitions"]
                if st[1] >= 100 and cl.get("second_topic"):
                    topic, part = "t1", 0
                counters["send"] += 1
                sid = counters["send"]
                value = b"%d.%d." % (proc.txn_no or 0, sid) + b"x" * st[2]
                srec = {"id": sid, "txn": proc.txn_no, "proc": proc.tag, "partition": part, "value": value,
                        "accepted": False, "t_call": loop._vtime}
                obs.sends.append(srec)

                async def do_send():
                    fut = await p.send(topic, value, partition=part)
                    track_send(proc, part, fut, srec)
                    if st[3]:
                        try:
                            await fut
                        except Exception:
                            pass
                    return None
                r = await call(proc, "send", do_send, {"send_id": sid, "partition": part})
                srec["call_outcome"] = r["outcome"]
                if obs.txns and proc.txn_no and srec["accepted"]:
                    for t in obs.txns:
                        if t["n"] == proc.txn_no:
                            t["sends"].append(sid)
            elif kind == "mkbatch":
                # the explicit batch API: the builder may be made before the transaction it is sent in begins
                b = p.create_batch()
                recs = []
                for _ in range(st[2]):
                    counters["send"] += 1
                    sid = counters["send"]
                    value = b"0.%d." % sid
                    if b.append(key=None, value=value, timestamp=None) is None:
                        counters["send"] -= 1
                        break
                    recs.append((sid, value))
                proc.batches.append((st[1] % cl["partitions"], b, recs))
            elif kind == "send_batch":
                if not proc.batches:
                    continue
                part, b, recs = proc.batches.pop(0)
                srecs = [{"id": sid, "txn": proc.txn_no, "proc": proc.tag, "partition": part, "value": value,
                          "accepted": False, "t_call": loop._vtime, "batch_api": True} for sid, value in recs]
                obs.sends.extend(srecs)

                async def do_send_batch():
                    fut = await p.send_batch(b, "t0", partition=part)
                    for srec in srecs:
                        track_send(proc, part, fut, srec)
                    return None
                r = await call(proc, "send", do_send_batch, {"send_id": srecs[0]["id"] if srecs else None,
                                                              "partition": part, "batch_ids": [x["id"] for x in srecs]})
                for srec in srecs:
                    srec["call_outcome"] = r["outcome"]
                    if obs.txns and proc.txn_no and srec["accepted"]:
                        for t in obs.txns:
                            if t["n"] == proc.txn_no:
                                t["sends"].append(srec["id"])
            elif kind == "offsets":
                offs = {TopicPartition("src", int(k)): v for k, v in st[1].items()}
                r = await call(proc, "offsets", lambda: p.send_offsets_to_transaction(offs, st[2]))
                if r["outcome"][0] == "ok" and proc.txn_no:
                    for t in obs.txns:
                        if t["n"] == proc.txn_no:
                            if t["offsets"] and t["offsets"][0] == st[2]:
                                # several calls in one transaction: a partition named by more than one of them may end
                                # at either value (the calls may have been concurrent)
                                t.setdefault("offsets_ambiguous", set()).update(set(t["offsets"][1]) & set(st[1]))
                                merged = dict(t["offsets"][1])
                                merged.update(st[1])
                                t["offsets"] = (st[2], merged)
                            else:
                                t["offsets"] = (st[2], dict(st[1]))
                r["offsets"] = (st[2], dict(st[1]))
            elif kind == "straggle":
                # application tasks that keep sending while the main task goes on to end the transaction; they are
                # joined right after the end call returned (before the next transaction can begin)
                for sub in st[1]:
                    proc.stragglers.append(asyncio.ensure_future(run_steps(proc, sub)))
            elif kind in ("commit", "abort"):
                fn = p.commit_transaction if kind == "commit" else p.abort_transaction
                r = await call(proc, kind, fn)
                if proc.stragglers:
                    await asyncio.gather(*proc.stragglers, return_exceptions=True)
                    proc.stragglers = []
                for t in obs.txns:
                    if t["n"] == proc.txn_no and t["end"] is None and r["outcome"][0] != "raised":
                        t["end"] = (kind, r["outcome"], r["t_call"], r["t_return"])
                    elif t["n"] == proc.txn_no and t["end"] is None:
                        t.setdefault("failed_ends", []).append((kind, r["outcome"], r["t_call"]))
            elif kind == "commit_tmo":
                # the application stops waiting for commit_transaction() (wait_for cancels the call; the commit itself
                # goes on inside the producer)
                async def commit_with_timeout():
                    try:
                        await asyncio.wait_for(p.commit_transaction(), st[1])
                        return "committed"
                    except asyncio.TimeoutError:
                        return "gave_up"
                r = await call(proc, "commit_tmo", commit_with_timeout)
                for t in obs.txns:
                    if t["n"] == proc.txn_no and t["end"] is None and r["outcome"][0] == "ok" and r.get("result") == "committed":
                        t["end"] = ("commit", r["outcome"], r["t_call"], r["t_return"])
            elif kind in ("ctx_ok", "ctx_exc"):
                # the body is left with an ordinary exception or with a BaseException (a cancelled task, a
                # KeyboardInterrupt): either way the transaction must be aborted
                class Boom(BaseException if (len(st) > 2 and st[2] == "base") else Exception):
                    pass

                async def body():
                    async with p.transaction():
                        counters["txn"] += 1
                        proc.txn_no = counters["txn"]
                        obs.txns.append({"n": proc.txn_no, "proc": proc.tag, "t_begin": loop._vtime, "end": None,
                                         "offsets": None, "sends": [], "ctx": kind})
                        await run_steps(proc, st[1])
                        if kind == "ctx_exc":
                            raise Boom()
                t_no_before = counters["txn"]

                async def guarded():
                    try:
                        await body()
                    except Boom:
                        return "boom"
                r = await call(proc, kind, guarded)
                r["txn"] = proc.txn_no
                if counters["txn"] > t_no_before:
                    for t in obs.txns:
                        if t["n"] == proc.txn_no and t["end"] is None:
                            if r["outcome"][0] == "ok":
                                t["end"] = ("commit" if kind == "ctx_ok" else "abort", ("ok",), r["t_call"], r["t_return"])
                            else:
                                t.setdefault("failed_ends", []).append((kind, r["outcome"], r["t_call"]))
            elif kind == "par":
                await asyncio.gather(*[run_steps(proc, sub) for sub in st[1]])
            elif kind == "flush":
                await call(proc, "flush", p.flush)

    async def run_proc(tag, steps, delay=0.0):
        CLIENT_TAG.set(tag)
        if delay:
            await asyncio.sleep(delay)
        proc = Proc(tag)
        procs[tag] = proc
        try:
            proc.producer = await asyncio.wait_for(_start_producer(case, c, tag), 120.0)
        except asyncio.CancelledError:
            raise
        except Exception as e:
            obs.start_errors.append((tag, repr(e)))
            return
        try:
            await run_steps(proc, steps)
            if proc.stragglers:
                await asyncio.gather(*proc.stragglers, return_exceptions=True)
        finally:
            proc.finished = True

    tasks = []
    for i, pr in enumerate(case["procs"]):
        tasks.append(asyncio.ensure_future(run_proc("p%d" % i, pr["steps"], pr.get("start_delay", 0.0))))
        await asyncio.sleep(0)
    # kills: after the k-th cluster arrival from that process
    kills = {k["proc"]: k for k in case.get("kills", [])}
    if kills:
        seen = {}

        def on_arrival(a):
            tag = a.client_id
            if tag in kills and tag not in net.dead_tags:
                seen[tag] = seen.get(tag, 0) + 1
                if seen[tag] >= kills[tag]["after"]:
                    obs.killed.append((tag, loop._vtime, a.seq))
                    if tag in procs:
                        procs[tag].dead = True
                    loop.call_soon(net.kill, tag)
                    for d in (0.001, 0.01, 0.1, 1.0):      # a dead process runs no cleanup handlers either
                        loop.call_later(d, net.kill, tag)
        c.on_arrival = on_arrival
    done, pend = await asyncio.wait(tasks, timeout=case.get("run_for", 120.0))
    c.make_quiet()
    obs.t_quiet = loop._vtime
    dead_tasks = {t for i, t in enumerate(tasks) if ("p%d" % i) in net.dead_tags}
    pend = set(pend) - dead_tasks
    if pend:
        done2, pend = await asyncio.wait(pend, timeout=bound)
        pend = set(pend) - dead_tasks
        if pend:
            obs.hung = True
            obs.notes.append("steps still blocked %.1fs after the quiet point" % bound)
            for t in pend:
                t.cancel()
            await asyncio.wait(pend, timeout=1.0)
    for t in tasks:
        if t.done() and not t.cancelled() and t.exception() is not None and t not in dead_tasks:
            raise t.exception()
    # coordinator resolves what dead producers left open: a new incarnation would fence them; for the
    # final reading we let the transaction timeout fire
    for txid, st in c.txn.txns.items():
        if st.state == "Ongoing":
            owner_alive = any((not p.dead) and p.producer is not None and
                              getattr(p.producer._txn_manager, "producer_epoch", None) == st.epoch
                              for p in procs.values())
            if not owner_alive:
                st.epoch += 1
                c.txn._end(txid, st, False, fenced=True)
                st.state = "Empty"
                obs.notes.append("coordinator aborted the open transaction of a dead producer")
    # stop the live producers
    for tag, proc in procs.items():
        if proc.producer is not None and not proc.dead:
            CLIENT_TAG.set(tag)
            t = asyncio.ensure_future(proc.producer.stop())
            d, pnd = await asyncio.wait([t], timeout=bound)
            if pnd:
                obs.notes.append("stop of %s did not return" % tag)
                t.cancel()
    obs.procs = {tag: {"dead": p.dead, "state": (str(p.producer._txn_manager.state) if p.producer else None)}
                 for tag, p in procs.items()}


def _run(case):
    if not _SHIMMED[0]:
        setup()
    obs = Obs()

    loop = simloop.VirtualLoop(vtime_cap=1800.0)
    net = TaggedNet(loop, latencies=case.get("lat") or [0.001], chunks=case.get("chunks") or [0],
                    connect_latencies=[0.001])
    simloop.set_clock_loop(loop)
    asyncio.set_event_loop(loop)
    exc = None
    try:
        loop.run_until_complete(_main(case, obs, loop, net))
    except (simloop.Deadlock, simloop.VirtualTimeLimit, simloop.BusyLoop) as e:
        obs.deadlock = repr(e)
    except BaseException:
        simloop.finish(loop)
        raise
    obs.vtime = loop._vtime
    c = obs.cluster
    if c is not None:
        for tname in ("t0", "t1"):
            for pl in c.topics.get(tname, []):
                obs.final[tpk(tname, pl.partition)] = {"decoded": pl.decoded(), "hw": pl.hw, "lso": pl.lso,
                                                       "log_start": pl.log_start, "end": pl.next_offset}
        for gid, g in c.groups.groups.items():
            obs.group_offsets[gid] = {"%s:%d" % k: v[0] for k, v in g.offsets.items()}
    simloop.finish(loop)
    return obs


def value_tag(v):
    try:
        a, b, _ = v.split(b".", 2)
        return int(a), int(b)
    except Exception:
        return None


def committed_view(obs):
    """send id -> (tp, offset) for records an independent read-committed reader sees; and all data."""
    rc, ru = {}, {}
    for k, f in obs.final.items():
        for off, r, b in CS.visible_records(f["decoded"], "read_committed", f["lso"]):
            t = value_tag(r["value"] or b"")
            if t:
                rc.setdefault(t[1], []).append((k, off))
        for off, r, b in CS.visible_records(f["decoded"], "read_uncommitted", f["hw"]):
            t = value_tag(r["value"] or b"")
            if t:
                ru.setdefault(t[1], []).append((k, off, b.get("transactional")))
    return rc, ru


def run(case):
    """Execute the case (case["debug_log"]: with the library's DEBUG logging switched on); returns Obs."""
    from vlib.core import debug_logging
    with debug_logging(case.get("debug_log")):
        return _run(case)
