#!/venv/bin/python
"""usage: tools/dbg_replay.py <replay.json> [--arrivals] : re-executes a saved case in-process and prints failures."""
import sys, os, json
sys.path.insert(0, os.path.dirname(os.path.dirname(os.path.abspath(__file__))))
from vlib import stage; stage.activate(stage.stage())
import logging; logging.disable(logging.CRITICAL)
import importlib
from vlib.core import unjsonify, jsonify
rec = json.load(open(sys.argv[1]))
m = importlib.import_module("props." + rec["property"].lower())
camp = [c for t in ("quick", "thorough") for c in m.campaigns(t) if c.name == rec["campaign"]][0]
if camp.setup: camp.setup()
case = unjsonify(rec["case"])
print("CASE", json.dumps(rec["case"])[:3000])
if "--arrivals" in sys.argv and hasattr(m, "PS") and hasattr(m, "evaluate"):
    obs = m.PS.run(case)
    for a in obs.cluster.arrivals:
        if a.api in ("api_versions",): continue
        ex = {k: v for k, v in a.extra.items() if k not in ("answered",)}
        if "batches" in ex: ex["batches"] = [(b["tp"], b["pid"], b["epoch"], b["base_seq"], b["count"], [m.PS.value_id(v or b"") for v in b["values"]]) for b in ex["batches"]]
        print("%4d t=%.4f w=%.4f end=%s n%d c%d %s v%d fault=%s %s" % (a.seq, a.t, a.t_written or -1, a.t_end, a.node, a.conn, a.api, a.ver, a.fault and (a.fault["act"], a.fault.get("code")), json.dumps(jsonify(ex))[:400]))
    print("FAULTLOG", obs.cluster.fault_log)
    for s in obs.sends: print("SEND", s["id"], s["topic"], s["req_partition"], "acc" if s.get("accepted") else s.get("send_error"), s.get("t_call"), s.get("t_done"), s.get("outcome"))
    print("notes", obs.notes, "deadlock", obs.deadlock, "stop", obs.stop, "sender_exc", obs.sender_exc)
    out = m.evaluate(case, obs)
else:
    out = camp.execute(case)
for f in out.failures:
    print("FAIL", f.sig, json.dumps(jsonify(f.detail))[:1500])
print("labels", sorted(out.labels), "info", out.info)
