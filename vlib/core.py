"""Core value types shared by all property modules."""
import hashlib
import json


def jsonify(x):
    """Canonical JSON-able form: bytes -> {"$b": hex}, tuples -> lists, sets sorted."""
    if isinstance(x, (bytes, bytearray, memoryview)):
        return {"$b": bytes(x).hex()}
    if isinstance(x, dict):
        return {str(k): jsonify(v) for k, v in x.items()}
    if isinstance(x, (list, tuple)):
        return [jsonify(v) for v in x]
    if isinstance(x, (set, frozenset)):
        return sorted((jsonify(v) for v in x), key=lambda v: json.dumps(v, sort_keys=True))
    if isinstance(x, float) and (x != x or x in (float("inf"), float("-inf"))):
        return repr(x)
    if x is None or isinstance(x, (bool, int, float, str)):
        return x
    if hasattr(x, "_asdict"):
        return jsonify(x._asdict())
    return repr(x)


def unjsonify(x):
    if isinstance(x, dict):
        if set(x.keys()) == {"$b"}:
            return bytes.fromhex(x["$b"])
        return {k: unjsonify(v) for k, v in x.items()}
    if isinstance(x, list):
        return [unjsonify(v) for v in x]
    return x


def canon(x):
    return json.dumps(jsonify(x), sort_keys=True, separators=(",", ":"))


def fingerprint(x):
    return hashlib.sha1(canon(x).encode()).hexdigest()[:16]


def clip(x, n=1500):
    """Shorten a JSON-able value for evidence samples."""
    s = canon(x)
    if len(s) <= n:
        return jsonify(x)
    return {"$clipped": s[:n] + "...", "$len": len(s)}


class Failure:
    """One violated oracle clause in one case."""

    __slots__ = ("clause", "site", "detail", "params")

    def __init__(self, clause, site="", detail=None, params=None):
        self.clause = clause
        self.site = site or ""
        self.detail = detail
        self.params = params or {}

    @property
    def sig(self):
        return "%s@%s" % (self.clause, self.site) if self.site else self.clause

    def to_json(self):
        return {"clause": self.clause, "site": self.site, "sig": self.sig,
                "detail": jsonify(self.detail), "params": jsonify(self.params)}


class Outcome:
    __slots__ = ("failures", "labels", "nontrivial", "info")

    def __init__(self):
        self.failures = []
        self.labels = set()
        self.nontrivial = False
        self.info = None

    def fail(self, clause, site="", detail=None, **params):
        self.failures.append(Failure(clause, site, detail, params))

    def label(self, *ls):
        self.labels.update(ls)


class HarnessError(Exception):
    """The verification machinery itself is broken (exit 2, never a violation)."""
