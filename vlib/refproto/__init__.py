from .codec import (RefProtoError, decode, decode_request, decode_response, encode,
                    encode_request_header, encode_response, parse, request_schema,
                    response_schema, is_flexible, API_NAMES, known_versions)  # noqa
