"""Reference schemas of the producer/consumer/group/transaction APIs.

Hand-transcribed from the Kafka protocol guide (message definitions of Kafka
2.x), for the versions the client can negotiate.  Field names are this
table's own.  Entry: (versions, request schema, response schema[, "flex"]).
"""

_P_REQ_OLD = "acks:i16 timeout:i32 topics:[name:str partitions:[index:i32 records:nbytes]]"
_P_REQ_TXN = "transactional_id:nstr " + _P_REQ_OLD
_P_RESP_V0 = "topics:[name:str partitions:[index:i32 error:i16 offset:i64]]"
_P_RESP_V2 = "topics:[name:str partitions:[index:i32 error:i16 offset:i64 timestamp:i64]] throttle:i32"
_P_RESP_V5 = ("topics:[name:str partitions:[index:i32 error:i16 offset:i64 timestamp:i64 "
              "log_start_offset:i64]] throttle:i32")
_P_RESP_V8 = ("topics:[name:str partitions:[index:i32 error:i16 offset:i64 timestamp:i64 "
              "log_start_offset:i64 record_errors:[batch_index:i32 message:nstr] error_message:nstr]] "
              "throttle:i32")

_F_PART_V1 = "partitions:[partition:i32 offset:i64 max_bytes:i32]"
_F_PART_V5 = "partitions:[partition:i32 offset:i64 log_start_offset:i64 max_bytes:i32]"
_F_PART_V9 = "partitions:[partition:i32 leader_epoch:i32 offset:i64 log_start_offset:i64 max_bytes:i32]"
_F_FORGOT = "forgotten:[topic:str partitions:[i32]]"
_FR_PART_V1 = "partitions:[partition:i32 error:i16 hw:i64 records:nbytes]"
_FR_PART_V4 = ("partitions:[partition:i32 error:i16 hw:i64 lso:i64 "
               "aborted:?[producer_id:i64 first_offset:i64] records:nbytes]")
_FR_PART_V5 = ("partitions:[partition:i32 error:i16 hw:i64 lso:i64 log_start_offset:i64 "
               "aborted:?[producer_id:i64 first_offset:i64] records:nbytes]")
_FR_PART_V11 = ("partitions:[partition:i32 error:i16 hw:i64 lso:i64 log_start_offset:i64 "
                "aborted:?[producer_id:i64 first_offset:i64] preferred_read_replica:i32 records:nbytes]")

_M_BROKERS_V0 = "brokers:[node_id:i32 host:str port:i32]"
_M_BROKERS_V1 = "brokers:[node_id:i32 host:str port:i32 rack:nstr]"
_M_PARTS = "partitions:[error:i16 partition:i32 leader:i32 replicas:[i32] isr:[i32]]"
_M_PARTS_V5 = "partitions:[error:i16 partition:i32 leader:i32 replicas:[i32] isr:[i32] offline:[i32]]"

_OC_TOPICS = "topics:[topic:str partitions:[partition:i32 offset:i64 metadata:nstr]]"
_OC_RESP = "topics:[topic:str partitions:[partition:i32 error:i16]]"
_OF_RESP = "topics:[topic:str partitions:[partition:i32 offset:i64 metadata:nstr error:i16]]"

_JG_PROTOS = "protocol_type:str protocols:[name:str metadata:bytes]"
_JG_RESP = ("error:i16 generation:i32 protocol:str leader:str member_id:str "
            "members:[member_id:str metadata:bytes]")

APIS = {
    0: ("Produce", [
        ((0,), _P_REQ_OLD, _P_RESP_V0),
        ((1,), _P_REQ_OLD, _P_RESP_V0 + " throttle:i32"),
        ((2,), _P_REQ_OLD, _P_RESP_V2),
        ((3, 4), _P_REQ_TXN, _P_RESP_V2),
        ((5, 6, 7), _P_REQ_TXN, _P_RESP_V5),
        ((8,), _P_REQ_TXN, _P_RESP_V8),
    ]),
    1: ("Fetch", [
        ((0,), "replica_id:i32 max_wait:i32 min_bytes:i32 topics:[topic:str " + _F_PART_V1 + "]",
         "topics:[topic:str " + _FR_PART_V1 + "]"),
        ((1, 2), "replica_id:i32 max_wait:i32 min_bytes:i32 topics:[topic:str " + _F_PART_V1 + "]",
         "throttle:i32 topics:[topic:str " + _FR_PART_V1 + "]"),
        ((3,), "replica_id:i32 max_wait:i32 min_bytes:i32 max_bytes:i32 topics:[topic:str " + _F_PART_V1 + "]",
         "throttle:i32 topics:[topic:str " + _FR_PART_V1 + "]"),
        ((4,), "replica_id:i32 max_wait:i32 min_bytes:i32 max_bytes:i32 isolation_level:i8 "
               "topics:[topic:str " + _F_PART_V1 + "]",
         "throttle:i32 topics:[topic:str " + _FR_PART_V4 + "]"),
        ((5, 6), "replica_id:i32 max_wait:i32 min_bytes:i32 max_bytes:i32 isolation_level:i8 "
                 "topics:[topic:str " + _F_PART_V5 + "]",
         "throttle:i32 topics:[topic:str " + _FR_PART_V5 + "]"),
        ((7, 8), "replica_id:i32 max_wait:i32 min_bytes:i32 max_bytes:i32 isolation_level:i8 "
                 "session_id:i32 session_epoch:i32 topics:[topic:str " + _F_PART_V5 + "] " + _F_FORGOT,
         "throttle:i32 error:i16 session_id:i32 topics:[topic:str " + _FR_PART_V5 + "]"),
        ((9, 10), "replica_id:i32 max_wait:i32 min_bytes:i32 max_bytes:i32 isolation_level:i8 "
                  "session_id:i32 session_epoch:i32 topics:[topic:str " + _F_PART_V9 + "] " + _F_FORGOT,
         "throttle:i32 error:i16 session_id:i32 topics:[topic:str " + _FR_PART_V5 + "]"),
        ((11,), "replica_id:i32 max_wait:i32 min_bytes:i32 max_bytes:i32 isolation_level:i8 "
                "session_id:i32 session_epoch:i32 topics:[topic:str " + _F_PART_V9 + "] " + _F_FORGOT +
                " rack_id:str",
         "throttle:i32 error:i16 session_id:i32 topics:[topic:str " + _FR_PART_V11 + "]"),
    ]),
    2: ("ListOffsets", [
        ((0,), "replica_id:i32 topics:[topic:str partitions:[partition:i32 timestamp:i64 max_num:i32]]",
         "topics:[topic:str partitions:[partition:i32 error:i16 offsets:[i64]]]"),
        ((1,), "replica_id:i32 topics:[topic:str partitions:[partition:i32 timestamp:i64]]",
         "topics:[topic:str partitions:[partition:i32 error:i16 timestamp:i64 offset:i64]]"),
        ((2, 3), "replica_id:i32 isolation_level:i8 topics:[topic:str partitions:[partition:i32 timestamp:i64]]",
         "throttle:i32 topics:[topic:str partitions:[partition:i32 error:i16 timestamp:i64 offset:i64]]"),
        ((4, 5), "replica_id:i32 isolation_level:i8 topics:[topic:str partitions:[partition:i32 "
                 "leader_epoch:i32 timestamp:i64]]",
         "throttle:i32 topics:[topic:str partitions:[partition:i32 error:i16 timestamp:i64 offset:i64 "
         "leader_epoch:i32]]"),
    ]),
    3: ("Metadata", [
        ((0,), "topics:[str]",
         _M_BROKERS_V0 + " topics:[error:i16 topic:str " + _M_PARTS + "]"),
        ((1,), "topics:?[str]",
         _M_BROKERS_V1 + " controller_id:i32 topics:[error:i16 topic:str is_internal:bool " + _M_PARTS + "]"),
        ((2,), "topics:?[str]",
         _M_BROKERS_V1 + " cluster_id:nstr controller_id:i32 topics:[error:i16 topic:str is_internal:bool "
         + _M_PARTS + "]"),
        ((3,), "topics:?[str]",
         "throttle:i32 " + _M_BROKERS_V1 + " cluster_id:nstr controller_id:i32 "
         "topics:[error:i16 topic:str is_internal:bool " + _M_PARTS + "]"),
        ((4,), "topics:?[str] allow_auto_create:bool",
         "throttle:i32 " + _M_BROKERS_V1 + " cluster_id:nstr controller_id:i32 "
         "topics:[error:i16 topic:str is_internal:bool " + _M_PARTS + "]"),
        ((5,), "topics:?[str] allow_auto_create:bool",
         "throttle:i32 " + _M_BROKERS_V1 + " cluster_id:nstr controller_id:i32 "
         "topics:[error:i16 topic:str is_internal:bool " + _M_PARTS_V5 + "]"),
    ]),
    8: ("OffsetCommit", [
        ((0,), "group:str topics:[topic:str partitions:[partition:i32 offset:i64 metadata:nstr]]", _OC_RESP),
        ((1,), "group:str generation:i32 member_id:str "
               "topics:[topic:str partitions:[partition:i32 offset:i64 timestamp:i64 metadata:nstr]]", _OC_RESP),
        ((2,), "group:str generation:i32 member_id:str retention_ms:i64 " + _OC_TOPICS, _OC_RESP),
        ((3,), "group:str generation:i32 member_id:str retention_ms:i64 " + _OC_TOPICS,
         "throttle:i32 " + _OC_RESP),
    ]),
    9: ("OffsetFetch", [
        ((0, 1), "group:str topics:[topic:str partitions:[i32]]", _OF_RESP),
        ((2,), "group:str topics:?[topic:str partitions:[i32]]", _OF_RESP + " error:i16"),
        ((3,), "group:str topics:?[topic:str partitions:[i32]]", "throttle:i32 " + _OF_RESP + " error:i16"),
    ]),
    10: ("FindCoordinator", [
        ((0,), "key:str", "error:i16 node_id:i32 host:str port:i32"),
        ((1,), "key:str key_type:i8",
         "throttle:i32 error:i16 error_message:nstr node_id:i32 host:str port:i32"),
    ]),
    11: ("JoinGroup", [
        ((0,), "group:str session_timeout:i32 member_id:str " + _JG_PROTOS, _JG_RESP),
        ((1,), "group:str session_timeout:i32 rebalance_timeout:i32 member_id:str " + _JG_PROTOS, _JG_RESP),
        ((2, 3, 4), "group:str session_timeout:i32 rebalance_timeout:i32 member_id:str " + _JG_PROTOS,
         "throttle:i32 " + _JG_RESP),
        ((5,), "group:str session_timeout:i32 rebalance_timeout:i32 member_id:str "
               "group_instance_id:nstr " + _JG_PROTOS,
         "throttle:i32 error:i16 generation:i32 protocol:str leader:str member_id:str "
         "members:[member_id:str group_instance_id:nstr metadata:bytes]"),
    ]),
    12: ("Heartbeat", [
        ((0,), "group:str generation:i32 member_id:str", "error:i16"),
        ((1, 2), "group:str generation:i32 member_id:str", "throttle:i32 error:i16"),
    ]),
    13: ("LeaveGroup", [
        ((0,), "group:str member_id:str", "error:i16"),
        ((1, 2), "group:str member_id:str", "throttle:i32 error:i16"),
    ]),
    14: ("SyncGroup", [
        ((0,), "group:str generation:i32 member_id:str assignments:[member_id:str assignment:bytes]",
         "error:i16 assignment:bytes"),
        ((1, 2), "group:str generation:i32 member_id:str assignments:[member_id:str assignment:bytes]",
         "throttle:i32 error:i16 assignment:bytes"),
        ((3,), "group:str generation:i32 member_id:str group_instance_id:nstr "
               "assignments:[member_id:str assignment:bytes]",
         "throttle:i32 error:i16 assignment:bytes"),
    ]),
    17: ("SaslHandshake", [
        ((0, 1), "mechanism:str", "error:i16 mechanisms:[str]"),
    ]),
    18: ("ApiVersions", [
        ((0,), "", "error:i16 api_versions:[api_key:i16 min:i16 max:i16]"),
        ((1, 2), "", "error:i16 api_versions:[api_key:i16 min:i16 max:i16] throttle:i32"),
    ]),
    22: ("InitProducerId", [
        ((0, 1), "transactional_id:nstr transaction_timeout_ms:i32",
         "throttle:i32 error:i16 producer_id:i64 producer_epoch:i16"),
    ]),
    24: ("AddPartitionsToTxn", [
        ((0, 1), "transactional_id:str producer_id:i64 producer_epoch:i16 topics:[topic:str partitions:[i32]]",
         "throttle:i32 results:[topic:str partitions:[partition:i32 error:i16]]"),
    ]),
    25: ("AddOffsetsToTxn", [
        ((0, 1), "transactional_id:str producer_id:i64 producer_epoch:i16 group:str",
         "throttle:i32 error:i16"),
    ]),
    26: ("EndTxn", [
        ((0, 1), "transactional_id:str producer_id:i64 producer_epoch:i16 committed:bool",
         "throttle:i32 error:i16"),
    ]),
    28: ("TxnOffsetCommit", [
        ((0, 1, 2), "transactional_id:str group:str producer_id:i64 producer_epoch:i16 " + _OC_TOPICS,
         "throttle:i32 " + _OC_RESP),
    ]),
    36: ("SaslAuthenticate", [
        ((0,), "auth_bytes:bytes", "error:i16 error_message:nstr auth_bytes:bytes"),
        ((1,), "auth_bytes:bytes", "error:i16 error_message:nstr auth_bytes:bytes session_lifetime_ms:i64"),
    ]),
}
