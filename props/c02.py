"""C02 - every send future resolves once, with the record's true coordinates."""
from vlib.core import Outcome
from vlib.runner import Campaign

from . import _producer_sim as PS

ID = "C02"
LEVEL = "exploration"
RULE = ("Case = C01's producer scenario plus per-record explicit/default timestamps, headers, "
        "CreateTime/LogAppendTime topics, Produce personality v0..v7, acks in {0,1,all}, flush()/stop() "
        "at drawn points. Non-trivial = a batch with >=2 distinct timestamps, or LogAppendTime, or "
        "Produce < v2, or a fault fired, or stop/flush issued while records were unresolved. "
        "Distinct = distinct case value.")
ASSUMPTIONS = ["simulated cluster vlib/simkafka; reply timestamp -1 for CreateTime topics, append time for LogAppendTime",
               "default record timestamps come from the builder's wall clock: compared only by equality with the stored record",
               "bounded liveness: flush/stop must return within 10*request_timeout + 40*retry_backoff + 5 s (virtual) after faults cease"]


def evaluate(case, obs):
    out = Outcome()
    if getattr(obs, "stop_raised", None):
        # an exception escaping producer.stop() (the sender task died of a non-Kafka error): accepted records are left
        # behind; reported under this property's own clause names
        out.fail("stop_waits", "stop_raised:" + obs.stop_raised[0], {"error": obs.stop_raised[1]})
    if obs.start_error is not None:
        out.label("start_failed")
        return out
    c = obs.cluster
    for e in c.harness_errors:
        raise RuntimeError("simulator error: %s" % e)
    cfg = case["cfg"]
    idem = cfg["idempotent"]
    acks0 = cfg.get("acks") == 0
    pmax = case["cluster"].get("produce_max", 7)
    accepted = [s for s in obs.sends if s.get("accepted")]
    for s in obs.sends:
        if s.get("bad"):
            out.label("refused_record")
            if s.get("accepted"):
                out.fail("coords", "malformed_record_accepted", {"id": s["id"]})
    # ---- resolved_all / flush_waits / stop_waits
    if obs.deadlock:
        out.fail("resolved_all", "deadlock", {"deadlock": obs.deadlock,
                                              "unresolved": [s["id"] for s in accepted if "outcome" not in s][:20]})
    if obs.tasks_hung:
        # a send()/flush() call that never returns is C19's subject (closed API); futures
        # that stay unresolved are still caught by unresolved_after_bound below
        out.label("application_call_blocked_after_quiet")
    if obs.unresolved_after_bound and not obs.deadlock:
        out.fail("resolved_all", "unresolved_after_bound", {"ids": obs.unresolved_after_bound[:20], "bound": obs.bound,
                                                            "notes": obs.notes})
    if not obs.deadlock and obs.stop is None:
        out.fail("stop_waits", "stop_did_not_return", {"notes": obs.notes})
    if not obs.deadlock and obs.stop is not None and obs.stop["tag"] == "final" \
            and obs.final_flush_returned is None:
        out.fail("flush_waits", "flush_did_not_return", {"notes": obs.notes})
    for s in accepted:
        if s.get("n_done", 0) > 1:
            out.fail("resolved_all", "resolved_twice", {"id": s["id"], "n": s["n_done"]})
    mid_flight = False
    for f in obs.flushes:
        if f["undone_at_return"]:
            out.fail("flush_waits", "returned_with_pending", {"flush": f})
    if obs.stop is not None:
        if obs.stop["undone_at_return"]:
            out.fail("stop_waits", "returned_with_pending", {"stop": obs.stop})
        if obs.stop["pending_at_call"]:
            mid_flight = True
    if obs.sender_exc:
        out.fail("resolved_all", "sender_died", {"exc": obs.sender_exc})
    # ---- coords
    logs = PS.log_records(obs)
    at = {}
    for tpk, rows in logs.items():
        for off, vid, r, b in rows:
            at[(tpk, off)] = (vid, r, b)
    ts_type = {}
    for t in case["cluster"]["topics"]:
        ts_type[t["name"]] = t.get("ts_type", 0)
    distinct_ts_batch = False
    for tpk, (pl, batches) in obs.final_logs.items():
        for b in batches:
            if len({r["timestamp"] for r in b["records"]}) >= 2 and not b.get("control"):
                distinct_ts_batch = True
    for s in accepted:
        oc = s.get("outcome")
        if oc is None:
            continue
        if oc[0] == "cancelled" and s.get("app_cancelled"):
            out.label("future_cancelled_by_application")      # the application's own doing
            continue
        if acks0:
            if oc[0] != "none" and oc[0] != "error":
                out.fail("acks0_none", "metadata_with_acks0", {"id": s["id"], "outcome": oc})
            continue
        if oc[0] == "none":
            out.fail("coords", "no_metadata", {"id": s["id"]})
            continue
        if oc[0] == "cancelled":
            out.fail("resolved_all", "cancelled", {"id": s["id"]})
            continue
        if oc[0] == "error":
            if idem:
                out.fail("idem_no_fail", oc[1], {"id": s["id"], "outcome": oc, "faults": [f[1] for f in c.fault_log][:10]})
            continue
        _, topic, partition, offset, timestamp, tstype = oc
        tpk = "%s:%d" % (topic, partition)
        if s.get("batch_future"):
            # send_batch: one future for the batch, carrying the base offset
            rel = s.get("batch_rel", 0)
            got = at.get((tpk, offset + rel))
        else:
            got = at.get((tpk, offset))
        if s["topic"] != topic or (s["req_partition"] is not None and s["req_partition"] != partition):
            out.fail("coords", "wrong_partition", {"id": s["id"], "outcome": oc})
            continue
        if got is None or got[0] != tuple(s["id"]):
            out.fail("coords", "offset_holds_other_record", {"id": s["id"], "outcome": oc,
                                                             "found": None if got is None else got[0]})
            continue
        vid, r, b = got
        if r["key"] != s["key"] or r["value"] != s["value"] or \
                [(k, v) for k, v in r["headers"]] != [(h[0], h[1]) for h in s["headers"]]:
            out.fail("coords", "content_differs", {"id": s["id"], "stored": [r["key"], r["value"], r["headers"]]})
        if s.get("batch_future"):
            continue
        want_type = ts_type[topic] if pmax >= 2 else 0
        if tstype != want_type:
            out.fail("coords", "timestamp_type", {"id": s["id"], "got": tstype, "want": want_type, "produce_max": pmax})
        if pmax >= 2 or ts_type[topic] == 0:
            want_ts = r["timestamp"]
            if timestamp != want_ts:
                out.fail("coords", "timestamp", {"id": s["id"], "future": timestamp, "stored": want_ts,
                                                 "explicit": s["ts"], "log_append": ts_type[topic] == 1})
            if s["ts"] is not None and ts_type[topic] == 0 and r["timestamp"] != s["ts"]:
                out.fail("coords", "stored_timestamp_not_the_given_one", {"id": s["id"], "given": s["ts"], "stored": r["timestamp"]})
    lat = any(t.get("ts_type") == 1 for t in case["cluster"]["topics"])
    out.nontrivial = bool(distinct_ts_batch or lat or pmax < 2 or c.fault_log or mid_flight)
    if distinct_ts_batch:
        out.label("batch_with_distinct_timestamps")
    if lat:
        out.label("log_append_time")
    out.label("produce_v%d" % pmax, "acks_%s" % cfg.get("acks"), "idempotent" if idem else "plain")
    if c.fault_log:
        out.label("fault_fired")
    if mid_flight:
        out.label("stop_mid_flight")
    if obs.stop is not None and obs.stop["tag"] == "mid":
        out.label("stop_in_program")
    if any(f for f in obs.flushes):
        out.label("flush_in_program")
    out.info = {"sends": len(obs.sends), "accepted": len(accepted), "faults_fired": len(c.fault_log),
                "ok": sum(1 for s in accepted if s.get("outcome", ("",))[0] == "ok"), "vtime": round(obs.vtime, 3)}
    return out


def execute(case):
    return evaluate(case, PS.run(case))


def campaigns(tier):
    th = tier == "thorough"
    return [
        Campaign("futures_sim", "hyp", execute=execute, strategy=lambda: PS.strategy("futures"),
                 examples=40000 if th else 4000, setup=PS.setup, max_wall=900 if th else 100, shrink_wall=40),
        # applications that stop waiting for single records (asyncio.wait_for cancels the delivery future) while their
        # batch is lingering, in flight, retried, expired or refused for good
        Campaign("cancelled_waiters", "hyp", execute=execute, strategy=lambda: PS.strategy("cancel"),
                 examples=12000 if th else 1500, setup=PS.setup, max_wall=400 if th else 60, shrink_wall=40),
    ]
