"""C12 - responses reach exactly their requests; connection failure fails all waiters."""
import asyncio
import struct

from vlib import refproto as RP
from vlib import simloop
from vlib.core import Outcome
from vlib.runner import Campaign

ID = "C12"
LEVEL = "exploration"
RULE = ("Case = 1..8 pipelined requests of mixed API types (flexible and non-flexible headers) on one real "
        "AIOKafkaConnection whose peer is a scripted in-memory broker x reply delays x byte-level chunking "
        "of the reply stream (incl. inside the size word and inside the header) x per-waiter behaviour "
        "(await / cancel at t / time out) x one optional fault at a drawn reply position (wrong, duplicate "
        "or unsolicited correlation id, truncated body, negative/oversized size word, EOF or reset at a "
        "drawn byte) x initial correlation counter near 2^31. Non-trivial = >=2 requests in flight with a "
        "chunk boundary inside a header or size word, or a waiter timed out / was cancelled before its "
        "bytes arrived, or a fault fired. Distinct = distinct case value.")
ASSUMPTIONS = ["scripted peer built on vlib/refproto (independent encoder of replies, decoder of requests)",
               "virtual-time loop and in-memory transport (vlib/simloop); replies are sent in request order as Kafka does"]

_SHIM = [False]

APIS = ["md", "fc", "dr", "av", "hb", "pr0", "sh"]     # pr0: Produce with acks=0 - written, drained, never answered


def setup():
    import aiokafka.conn  # noqa
    simloop.install_time_shim()
    _SHIM[0] = True


def _build_request(kind):
    from aiokafka.protocol.admin import ApiVersionRequest, DeleteRecordsRequest
    from aiokafka.protocol.coordination import FindCoordinatorRequest
    from aiokafka.protocol.group import HeartbeatRequest
    from aiokafka.protocol.metadata import MetadataRequest
    if kind == "md":
        return MetadataRequest(["t"])
    if kind == "fc":
        return FindCoordinatorRequest("key", 0)
    if kind == "dr":
        return DeleteRecordsRequest([("t", [(0, 1)])], 1000, tags={})
    if kind == "av":
        return ApiVersionRequest()
    if kind == "sh":
        from aiokafka.protocol.admin import SaslHandShakeRequest
        return SaslHandShakeRequest("PLAIN")
    if kind == "pr0":
        from aiokafka.protocol.produce import ProduceRequest
        return ProduceRequest(transactional_id=None, required_acks=0, timeout=100, topics=[("t", [(0, b"")])])
    return HeartbeatRequest("g", 1, "m")


def _reply_body(key, ver, marker, tags=True):
    if key == 3:
        return {"throttle": marker, "brokers": [], "cluster_id": None, "controller_id": 0, "topics": []}
    if key == 10:
        return {"throttle": marker, "error": 0, "error_message": None, "node_id": 1, "host": "h", "port": 1}
    if key == 21:
        # flexible version: unknown tagged fields (KIP-482) may follow, also empty ones; a client skips them
        return {"throttle_time_ms": marker, "topics": [], "_tags": [{}, {0: b"ab"}, {5: b"", 9: b"xyz"}][marker % 3] if tags else {}}
    if key == 18:
        return {"error": 0, "api_versions": [], "throttle": marker}
    if key == 17:
        # no throttle field to carry the marker: it travels as a mechanism name (the body ends in a string)
        return {"error": 0, "mechanisms": ["PLAIN", "m%d" % marker]}
    if key == 12:
        return {"throttle": marker, "error": 0}
    raise KeyError(key)


def _marker_of(resp):
    if hasattr(resp, "enabled_mechanisms"):
        ms = [m for m in resp.enabled_mechanisms if m.startswith("m") and m[1:].isdigit()]
        return int(ms[0][1:]) if len(ms) == 1 and list(resp.enabled_mechanisms)[:1] == ["PLAIN"] else None
    return getattr(resp, "throttle_time_ms", None)


# (SaslHandshake is advertised with a single version: min == max is a legal range)
VERSIONS = {3: (0, 5), 10: (0, 1), 21: (0, 2), 18: (0, 2), 12: (0, 1), 0: (0, 7), 17: (1, 1)}


class Peer:
    def __init__(self, loop, case):
        self.loop = loop
        self.case = case
        self.n = 0                    # data requests seen (after the version handshake)
        self.frames = []              # (arrival index, key, ver, corr)
        self.fault_fired_at = None
        self.fault_kind = None
        self.dead = False
        self.reply_done_at = {}       # request index -> virtual time the last byte is delivered
        self.undecodable = []
        self.zero_quirk = False

    def on_frame(self, conn, frame, t_written=None):
        try:
            hdr, body = RP.decode_request(frame)
        except Exception as e:
            self.undecodable.append(repr(e))
            conn.close(reset=True)
            return
        key, ver, corr = hdr["api_key"], hdr["api_version"], hdr["correlation_id"]
        if not getattr(conn, "handshake_done", False):
            conn.handshake_done = True
            body = {"error": 0, "api_versions": [{"api_key": k, "min": v[0], "max": v[1]} for k, v in VERSIONS.items()]}
            if ver >= 1:
                body["throttle"] = 0
            conn.send_frame(RP.encode_response(18, ver, corr, body), delay=0.0005, chunks=[0])
            return
        i = self.n
        self.n += 1
        self.frames.append((i, key, ver, corr))
        if self.dead:
            return
        c = self.case
        spec = c["requests"][i] if i < len(c["requests"]) else {"marker": 0, "delay": 0.001}
        delay = spec.get("delay", 0.001)
        if key == 0:
            # acks=0: the broker appends and says nothing
            self.reply_done_at[i] = self.loop._vtime
            return
        htags = [None, {1: b"\x07"}, {0: b"", 3: b"hdr"}][(spec["marker"] // 3) % 3]       # ignored for non-flexible headers
        payload = RP.encode_response(key, ver, corr, _reply_body(key, ver, spec["marker"]), header_tags=htags)
        f = c.get("fault")
        chunks = c.get("chunks") or [0]
        if f and f["at"] == i:
            self.fault_kind = f["kind"]
            k = f["kind"]
            self.dead = True
            t_f = max(conn._s2c_t, self.loop._vtime + delay)
            self.fault_fired_at = t_f
            # every third wrong id is exactly 0 - the one value old FindCoordinator v0 replies are forgiven for
            zero = f.get("byte", 1) % 3 == 0 and corr != 0
            self.zero_quirk = zero and key == 10 and ver == 0
            if k == "wrong_corr":
                bad = RP.encode_response(key, ver, 0 if zero else (corr + 1000) % 2 ** 31, _reply_body(key, ver, spec["marker"]))
                conn.send_frame(bad, delay=delay, chunks=chunks)
            elif k == "dup":
                self.dead = False
                conn.send_frame(payload, delay=delay, chunks=chunks)
                self.reply_done_at[i] = conn._s2c_t
                conn.send_frame(payload, delay=0.0, chunks=chunks)
                self.fault_fired_at = conn._s2c_t
                self.dup_index = i
            elif k == "unsolicited":
                extra = RP.encode_response(key, ver, 0 if zero else (corr + 77777) % 2 ** 31, _reply_body(key, ver, 424242))
                conn.send_frame(extra, delay=delay, chunks=chunks)
            elif k == "truncated_body":
                # (without tagged fields: a cut inside an unknown tagged field is not something a client can notice)
                payload = RP.encode_response(key, ver, corr, _reply_body(key, ver, spec["marker"], tags=False))
                cut = max(4, min(len(payload) - 1, f.get("byte", 5)))
                conn.send_frame(payload[:cut], delay=delay, chunks=chunks)
            elif k == "neg_size":
                conn.send_raw(struct.pack(">i", -5) + payload, delay=delay, chunks=chunks)
            elif k == "huge_size":
                conn.send_raw(struct.pack(">i", 2 ** 31 - 1) + payload[: f.get("byte", 3)], delay=delay, chunks=chunks)
            elif k in ("eof", "reset"):
                full = len(payload).to_bytes(4, "big") + payload
                cut = min(len(full) - 1, f.get("byte", 0))
                if cut > 0:
                    conn.send_raw(full[:cut], delay=delay, chunks=chunks)
                conn.close(delay=delay if cut == 0 else 0.0, reset=(k == "reset"))
                self.fault_fired_at = conn._s2c_t
            return
        conn.send_frame(payload, delay=delay, chunks=chunks)
        self.reply_done_at[i] = conn._s2c_t


async def _main(case, obs, loop, net):
    from aiokafka.conn import create_conn
    import aiokafka.errors as Errors
    peer = Peer(loop, case)
    obs["peer"] = peer
    net.listen("peer", 9092, peer)
    timeout_ms = case["request_timeout_ms"]
    # with an idle limit the connection may be dropped while nothing is outstanding - never under a waiter
    conn = await create_conn("peer", 9092, request_timeout_ms=timeout_ms, max_idle_ms=case.get("max_idle_ms"))
    obs["conn"] = conn
    if case.get("corr_start") is not None:
        if hasattr(conn, "_correlation_id"):
            conn._correlation_id = case["corr_start"]
        else:
            obs["corr_skipped"] = True
    waiters = []

    async def one(i, spec):
        rec = {"i": i, "t_send": loop._vtime}
        waiters.append(rec)
        f = case.get("fault")
        if f and f["kind"] == "write_error" and f["at"] == i and conn._writer is not None:
            # the transport refuses this write although nothing was read (no EOF, no reset): the connection is lost
            import errno
            conn._writer.transport.fail_next_write = OSError(errno.EPIPE if f.get("byte", 0) % 2 else errno.ETIMEDOUT, "write failed")
            peer.fault_kind = "write_error"
            peer.fault_fired_at = loop._vtime
            peer.dead = True
        try:
            if spec["api"] == "pr0":
                fut = conn.send(_build_request("pr0"), expect_response=False)      # what AIOKafkaClient.send() does
            else:
                fut = conn.send(_build_request(spec["api"]))
        except Exception as e:
            rec["send_error"] = (type(e).__name__, repr(e))
            rec["t_done"] = loop._vtime
            return
        try:
            resp = await fut
            rec["result"] = spec["marker"] if spec["api"] == "pr0" else _marker_of(resp)
            rec["resp_type"] = type(resp).__name__
        except asyncio.CancelledError:
            rec["cancelled"] = True
        except asyncio.TimeoutError:
            rec["timeout"] = True
        except Exception as e:
            rec["error"] = (type(e).__name__, repr(e))
        rec["t_done"] = loop._vtime

    tasks = []
    for i, spec in enumerate(case["requests"]):
        if spec.get("gap"):
            await asyncio.sleep(spec["gap"])
        t = asyncio.ensure_future(one(i, spec))
        tasks.append(t)
        await asyncio.sleep(0)          # let it write its request so the order on the wire is i
        if spec.get("cancel_after") is not None:
            loop.call_later(spec["cancel_after"], t.cancel)
    horizon = timeout_ms / 1000.0 + max([s.get("delay", 0) for s in case["requests"]] + [0]) + 1.0
    await asyncio.wait(tasks, timeout=horizon)
    await asyncio.sleep(0.01)           # every written request has reached the peer by now
    last = max([peer.fault_fired_at or 0.0] + list(peer.reply_done_at.values()))
    if last > loop._vtime:
        await asyncio.sleep(last - loop._vtime)      # let every scripted reply / failure happen
    await asyncio.sleep(0.02)
    obs["pending"] = [i for i, t in enumerate(tasks) if not t.done()]
    obs["waiters"] = waiters
    obs["t_end"] = loop._vtime
    # a later send on a failed connection
    try:
        f = conn.send(_build_request("hb"))
        try:
            r = await asyncio.wait_for(f, 0.05)
            obs["later_send"] = ("result", _marker_of(r))
        except asyncio.TimeoutError:
            obs["later_send"] = ("timeout",)
        except Exception as e:
            obs["later_send"] = ("error", type(e).__name__)
    except Exception as e:
        obs["later_send"] = ("raised", type(e).__name__)
    obs["connected_at_end"] = conn.connected()
    for t in tasks:
        if not t.done():
            t.cancel()
    conn.close()
    await asyncio.sleep(0.01)


def execute(case):
    if not _SHIM[0]:
        setup()
    obs = {}

    async def main(loop, net):
        await _main(case, obs, loop, net)

    _, exc, loop, net = simloop.run_case(main, net_kwargs={"latencies": [0.0005], "chunks": [0]}, vtime_cap=600.0)
    out = Outcome()
    if exc is not None and not isinstance(exc, (simloop.Deadlock, simloop.VirtualTimeLimit, simloop.BusyLoop)):
        simloop.finish(loop)
        raise exc
    left = simloop.leftover(loop, net) if exc is None else ([], [], [])
    simloop.finish(loop)
    if exc is not None:
        out.fail("fail_all", "deadlock", {"exc": repr(exc)})
        return out
    peer = obs["peer"]
    if peer.undecodable:
        out.fail("own_reply", "request_undecodable_by_reference", {"errors": peer.undecodable[:3]})
    if peer.zero_quirk:
        out.label("find_coordinator_v0_zero_id_quirk")      # tolerated by design (Kafka 0.8.2): not judged
        return out
    reqs = case["requests"]
    ws = {w["i"]: w for w in obs["waiters"]}
    timeout = case["request_timeout_ms"] / 1000.0
    t_f = peer.fault_fired_at
    conn_errors = ("KafkaConnectionError", "CorrelationIdError")
    # request order on the wire and correlation ids
    corrs = [f[3] for f in peer.frames[:len(reqs)]]
    for a, b in zip(corrs, corrs[1:]):
        if b != (a + 1) % 2 ** 31:
            out.fail("own_reply", "correlation_ids_not_consecutive", {"corrs": corrs})
            break
    if any(c < 0 or c >= 2 ** 31 for c in corrs):
        out.fail("own_reply", "correlation_id_out_of_range", {"corrs": corrs})
    last_done = -1.0
    for i, spec in enumerate(reqs):
        w = ws.get(i)
        if w is None:
            continue
        if spec["api"] == "pr0":
            continue                      # nothing comes back for it; it must not disturb the others (judged below)
        if "result" in w:
            if w["result"] != spec["marker"]:
                out.fail("own_reply", "foreign_reply", {"i": i, "got": w["result"], "want": spec["marker"], "api": spec["api"]})
            if w["t_done"] + 1e-9 < last_done:
                out.fail("in_order", "completion_out_of_request_order", {"i": i, "t": w["t_done"], "prev": last_done})
            last_done = max(last_done, w["t_done"])
            if t_f is not None and peer.fault_kind not in ("dup", "unsolicited") and i >= case["fault"]["at"] and \
                    peer.fault_kind != "huge_size":
                out.fail("fail_all", "result_after_failure", {"i": i, "fault": case["fault"]})
    if obs["pending"]:
        out.fail("fail_all", "waiter_left_pending", {"pending": obs["pending"], "fault": case.get("fault")})
    # a request the connection refuses to send although it is open and the peer supports the API
    for i, spec in enumerate(reqs):
        w = ws.get(i)
        if w is not None and "send_error" in w and w["send_error"][0] not in conn_errors:
            out.fail("own_reply", "send_raised:" + w["send_error"][0], {"i": i, "api": spec["api"], "error": w["send_error"][1][:200]})
    # waiters that must have been served: reply fully delivered well before their deadline and any fault
    for i, spec in enumerate(reqs):
        w = ws.get(i)
        r = peer.reply_done_at.get(i)
        if w is None or r is None or spec["api"] == "pr0":
            continue
        deadline = w["t_send"] + timeout
        if spec.get("cancel_after") is not None:
            deadline = min(deadline, w["t_send"] + spec["cancel_after"])
        clean = t_f is None or r < t_f - 1e-6 or (peer.fault_kind == "dup" and i <= case["fault"]["at"])
        if clean and r < deadline - 1e-4 and "result" not in w:
            out.fail("timeouts_local", "served_waiter_without_result",
                     {"i": i, "waiter": {k: v for k, v in w.items()}, "reply_done_at": r, "deadline": deadline,
                      "fault": case.get("fault")})
    # after a failure every outstanding waiter ends with a connection error
    effective = t_f is not None and peer.fault_kind != "huge_size"
    if effective and peer.fault_kind == "truncated_body":
        # a well-framed reply whose waiter already gave up is skipped without being decoded
        w_at = ws.get(case["fault"]["at"])
        if w_at is not None and w_at.get("t_done", 1e9) < t_f - 1e-9:
            effective = False
            out.label("truncated_reply_for_abandoned_waiter")
    if effective:
        at = case["fault"]["at"]
        for i, spec in enumerate(reqs):
            w = ws.get(i)
            if w is None or (i < at and peer.fault_kind != "write_error") or (peer.fault_kind == "dup" and i <= at):
                continue
            if spec["api"] == "pr0":
                continue
            if i < at and peer.reply_done_at.get(i) is not None and peer.reply_done_at[i] < t_f - 1e-6:
                continue                      # answered before the write failed
            if "send_error" in w:
                if w["send_error"][0] not in conn_errors:
                    out.fail("fail_all", "send_raised_other:" + w["send_error"][0], {"i": i})
                continue
            done_before = w.get("t_done", 1e9) < t_f - 1e-9
            if done_before:
                continue                      # timed out / cancelled before the failure: stays as it was
            if "error" in w:
                if w["error"][0] not in conn_errors:
                    out.fail("fail_all", "not_a_connection_error:" + w["error"][0], {"i": i, "error": w["error"]})
                elif w["t_done"] > t_f + 0.01:
                    out.fail("fail_all", "failed_late", {"i": i, "t_done": w["t_done"], "fault_at": t_f})
            elif w.get("timeout") or w.get("cancelled"):
                dl = w["t_send"] + (spec.get("cancel_after") if spec.get("cancel_after") is not None else timeout)
                if w["t_done"] > t_f + 0.01 and dl > t_f + 0.01 and peer.fault_kind not in ("unsolicited",):
                    out.fail("fail_all", "outstanding_waiter_not_failed_by_connection_loss",
                             {"i": i, "waiter": w, "fault_at": t_f, "fault": case["fault"]})
        ls = obs.get("later_send")
        if ls and ls[0] not in ("raised", "error"):
            out.fail("fail_all", "send_after_failure_accepted", {"later_send": ls, "fault": case["fault"]})
        elif ls and ls[1] not in conn_errors:
            out.fail("fail_all", "send_after_failure_raised_other:" + ls[1], {"later_send": ls})
    tasks_left, timers_left, trs = left
    chunks = case.get("chunks") or [0]
    small = any(0 < c < 12 for c in chunks)
    early = any(("timeout" in w or "cancelled" in w) for w in ws.values())
    out.nontrivial = bool((len(reqs) >= 2 and small) or early or t_f is not None)
    if small:
        out.label("chunk_inside_header")
    if early:
        out.label("waiter_timeout_or_cancel")
    if t_f is not None:
        out.label("fault_" + str(peer.fault_kind))
    if case.get("corr_start") is not None:
        out.label("corr_near_wrap")
    if case.get("max_idle_ms") is not None:
        out.label("idle_limit_set")
    for s in reqs:
        out.label("api_" + s["api"])
    out.info = {"outcomes": [("result" if "result" in w else "timeout" if w.get("timeout") else "cancelled" if w.get("cancelled")
                              else w.get("error", w.get("send_error", ("?",)))[0]) for _, w in sorted(ws.items())]}
    return out


def strategy():
    from hypothesis import strategies as st

    @st.composite
    def cases(draw):
        n = draw(st.integers(1, 8))
        timeout_ms = draw(st.sampled_from([50, 100, 300]))
        reqs = []
        for i in range(n):
            spec = {"api": draw(st.sampled_from(APIS)), "marker": 1000 + i * 7 + draw(st.integers(0, 5)),
                    "delay": draw(st.sampled_from([0.0005, 0.001, 0.003, 0.01, 0.04, 0.0805, 0.2505, 0.6005])),
                    "gap": draw(st.sampled_from([0, 0, 0, 0.0013, 0.0107]))}
            if draw(st.integers(0, 5)) == 0:
                spec["cancel_after"] = draw(st.sampled_from([0.0, 0.0007, 0.0033, 0.0151, 0.0607]))
            reqs.append(spec)
        fault = None
        if draw(st.integers(0, 2)) > 0 and any(r["api"] != "pr0" for r in reqs):
            fault = {"at": draw(st.sampled_from([i for i, r in enumerate(reqs) if r["api"] != "pr0"])),
                     "kind": draw(st.sampled_from(["wrong_corr", "dup", "unsolicited", "truncated_body", "neg_size",
                                                   "huge_size", "eof", "reset", "write_error"])),
                     "byte": draw(st.integers(0, 40))}
        return {"requests": reqs, "fault": fault, "request_timeout_ms": timeout_ms,
                "chunks": draw(st.lists(st.sampled_from([0, 0, 1, 2, 3, 5, 9, 17, 64]), min_size=1, max_size=5)),
                "corr_start": draw(st.sampled_from([None, None, 2 ** 31 - 2, 2 ** 31 - 4, 2 ** 31 - 8])),
                "max_idle_ms": draw(st.sampled_from([None, None, None, 20, 60, 150, 400]))}
    return cases()


def campaigns(tier):
    th = tier == "thorough"
    return [Campaign("pipeline", "hyp", execute=execute, strategy=strategy, examples=200000 if th else 6000,
                     setup=setup, max_wall=900 if th else 90, shrink_wall=30)]
