"""Simulated transaction coordinator."""
from . import cluster as C


class TxnState:
    def __init__(self, pid):
        self.pid = pid
        self.epoch = -1
        self.state = "Empty"          # Empty | Ongoing | Completing
        self.partitions = set()       # (topic, partition)
        self.groups = set()
        self.complete_at = 0.0        # virtual time until which markers are "being written"
        self.last_result = None       # (epoch, committed)
        self.history = []             # [(t, event, detail)]
        self.txn_index = 0


class TxnCoordinator:
    def __init__(self, cluster):
        self.c = cluster
        self.txns = {}                # transactional_id -> TxnState
        self.marker_delay = None      # Cyclic of delays (s) for "markers still being written"
        self.log = []                 # (t, txid, pid, epoch, event, detail)

    def _note(self, txid, st, event, detail=None):
        self.log.append((self.c.loop._vtime, txid, st.pid if st else None, st.epoch if st else None,
                         event, detail))

    def settle_all(self):
        for st in self.txns.values():
            st.complete_at = 0.0
            if st.state == "Completing":
                st.state = "Empty"

    def _check_node(self, ctx):
        return ctx.node.node_id == self.c.txn_coord_node

    def _settle(self, st):
        if st.state == "Completing" and self.c.loop._vtime >= st.complete_at:
            st.state = "Empty"

    # -------------------------------------------------------------- InitProducerId
    def init_pid(self, ctx):
        b = ctx.body
        txid = b["transactional_id"]
        if txid is None:
            pid = self.c.next_pid
            self.c.next_pid += 1
            ctx.reply({"throttle": 0, "error": 0, "producer_id": pid, "producer_epoch": 0})
            return
        if not self._check_node(ctx):
            ctx.reply(self.c.error_reply(22, ctx.ver, b, C.NOT_COORDINATOR))
            return
        st = self.txns.get(txid)
        if st is None:
            st = TxnState(self.c.next_pid)
            self.c.next_pid += 1
            self.txns[txid] = st
        self._settle(st)
        if st.state == "Ongoing":
            # fencing: bump the epoch, abort what the previous incarnation left open with markers
            # carrying the bumped epoch (so partition leaders reject the old incarnation afterwards)
            st.epoch += 1
            self._end(txid, st, False, fenced=True)
            st.state = "Empty"
        st.epoch += 1
        self._note(txid, st, "init", None)
        ctx.reply({"throttle": 0, "error": 0, "producer_id": st.pid, "producer_epoch": st.epoch})

    def _validate(self, ctx, key):
        """-> (state, error)"""
        b = ctx.body
        if not self._check_node(ctx):
            return None, C.NOT_COORDINATOR
        st = self.txns.get(b["transactional_id"])
        if st is None or st.pid != b["producer_id"]:
            return None, C.INVALID_PRODUCER_ID_MAPPING
        if b["producer_epoch"] != st.epoch:
            return st, C.INVALID_PRODUCER_EPOCH
        self._settle(st)
        return st, 0

    # -------------------------------------------------------------- AddPartitionsToTxn
    def add_partitions(self, ctx):
        b = ctx.body
        st, err = self._validate(ctx, 24)
        if not err and st.state == "Completing":
            err = C.CONCURRENT_TRANSACTIONS
        if err:
            ctx.reply(self.c.error_reply(24, ctx.ver, b, err))
            return
        res = []
        bad = False
        for t in b["topics"]:
            ps = []
            for p in t["partitions"]:
                e = 0 if self.c.log(t["topic"], p) is not None else C.UNKNOWN_TOPIC_OR_PARTITION
                bad = bad or e != 0
                ps.append({"partition": p, "error": e})
            res.append({"topic": t["topic"], "partitions": ps})
        if not bad:
            if st.state == "Empty":
                st.state = "Ongoing"
                st.txn_index += 1
            for t in b["topics"]:
                for p in t["partitions"]:
                    st.partitions.add((t["topic"], p))
            self._note(b["transactional_id"], st, "add_partitions",
                       [(t["topic"], p) for t in b["topics"] for p in t["partitions"]])
        ctx.arrival.extra["txn_index"] = st.txn_index
        ctx.reply({"throttle": 0, "results": res})

    # -------------------------------------------------------------- AddOffsetsToTxn
    def add_offsets(self, ctx):
        b = ctx.body
        st, err = self._validate(ctx, 25)
        if not err and st.state == "Completing":
            err = C.CONCURRENT_TRANSACTIONS
        if err:
            ctx.reply({"throttle": 0, "error": err})
            return
        if st.state == "Empty":
            st.state = "Ongoing"
            st.txn_index += 1
        st.groups.add(b["group"])
        self._note(b["transactional_id"], st, "add_offsets", b["group"])
        ctx.arrival.extra["txn_index"] = st.txn_index
        ctx.reply({"throttle": 0, "error": 0})

    # -------------------------------------------------------------- EndTxn
    def end_txn(self, ctx):
        b = ctx.body
        st, err = self._validate(ctx, 26)
        committed = bool(b["committed"])
        if err:
            ctx.reply({"throttle": 0, "error": err})
            return
        if st.state == "Ongoing":
            ctx.arrival.extra["txn_index"] = st.txn_index
            self._end(b["transactional_id"], st, committed)
            ctx.reply({"throttle": 0, "error": 0})
            return
        # Empty / Completing: a repeated identical request (lost reply, then retry) succeeds
        if st.last_result == (st.epoch, committed):
            ctx.arrival.extra["txn_index"] = st.txn_index
            ctx.arrival.extra["repeat"] = True
            ctx.reply({"throttle": 0, "error": 0})
        else:
            ctx.reply({"throttle": 0, "error": C.INVALID_TXN_STATE})

    def _end(self, txid, st, committed, fenced=False):
        now = self.c.now_ms()
        for (topic, p) in sorted(st.partitions):
            pl = self.c.log(topic, p)
            if pl is not None:
                pl.write_marker(st.pid, st.epoch, committed, now)
        for g in sorted(st.groups):
            self.c.groups.end_txn_offsets(g, st.pid, committed)
        self._note(txid, st, "end", {"committed": committed, "fenced": fenced,
                                     "partitions": sorted(st.partitions), "groups": sorted(st.groups),
                                     "txn_index": st.txn_index})
        st.partitions = set()
        st.groups = set()
        st.last_result = (st.epoch, committed)
        d = float(self.marker_delay.next()) if (self.marker_delay is not None and not self.c.quiet) else 0.0
        if d > 0:
            st.state = "Completing"
            st.complete_at = self.c.loop._vtime + d
        else:
            st.state = "Empty"


def _h_init_pid(c, ctx):
    c.txn.init_pid(ctx)


def _h_add_partitions(c, ctx):
    c.txn.add_partitions(ctx)


def _h_add_offsets(c, ctx):
    c.txn.add_offsets(ctx)


def _h_end_txn(c, ctx):
    c.txn.end_txn(ctx)


C.register(22, _h_init_pid)
C.register(24, _h_add_partitions)
C.register(25, _h_add_offsets)
C.register(26, _h_end_txn)
