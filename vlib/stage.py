"""Staging: build an importable copy of the *current working tree* of the repo.

/repo holds git-ignored prebuilt .so files (and generated .c files) that may be
stale relative to the .pyx sources, so checks never import /repo directly.
stage() copies the package sources to .build/stage/<hash>/aiokafka and builds
the four Cython modules out of tree (cached by the hash of the extension
sources and the build variant).
"""
import hashlib
import os
import shutil
import subprocess
import sys
import textwrap

VERIF = os.path.dirname(os.path.dirname(os.path.abspath(__file__)))
BUILD = os.path.join(VERIF, ".build")
PY = sys.executable

SRC_EXT = (".py", ".pyi", ".pyx", ".pxd", ".pxi", ".h", ".typed")
EXT_DIR = os.path.join("aiokafka", "record", "_crecords")
EXT_SOURCES = (".pyx", ".pxd", ".pxi", ".h")
EXT_C = ("crc32c.c",)


class StageError(Exception):
    pass


def repo_root():
    return os.environ.get("VERIF_REPO", "/repo")


def _walk_sources(root):
    pkg = os.path.join(root, "aiokafka")
    out = []
    for d, dirs, files in os.walk(pkg):
        dirs[:] = sorted(x for x in dirs if x != "__pycache__")
        for f in sorted(files):
            p = os.path.join(d, f)
            rel = os.path.relpath(p, root)
            if f.endswith(SRC_EXT) or (os.path.dirname(rel) == EXT_DIR and f in EXT_C):
                out.append(rel)
    return out


def _hash_files(root, rels, extra=""):
    h = hashlib.sha1(extra.encode())
    for rel in rels:
        h.update(rel.encode())
        with open(os.path.join(root, rel), "rb") as f:
            h.update(hashlib.sha1(f.read()).digest())
    return h.hexdigest()[:16]


_BUILD_SCRIPT = textwrap.dedent(
    """
    import os, sys
    from setuptools import Extension, setup
    from Cython.Build import cythonize
    variant = sys.argv.pop(1)
    out = sys.argv.pop(1)
    cflags = ["-O2"]; ldflags = []
    if variant == "asan":
        cflags = ["-O1", "-g", "-fno-omit-frame-pointer", "-fsanitize=address",
                  "-fsanitize-recover=address"]
        ldflags = ["-fsanitize=address", "-shared-libasan"]
    D = "aiokafka/record/_crecords/"
    def E(name, srcs):
        return Extension("aiokafka.record._crecords." + name, [D + s for s in srcs],
                         libraries=["z"], extra_compile_args=cflags,
                         extra_link_args=ldflags, include_dirs=[D])
    exts = [E("legacy_records", ["legacy_records.pyx"]),
            E("default_records", ["crc32c.c", "default_records.pyx"]),
            E("memory_records", ["memory_records.pyx"]),
            E("cutil", ["crc32c.c", "cutil.pyx"])]
    setup(name="x", ext_modules=cythonize(exts, build_dir="cy", language_level=3, quiet=True),
          script_args=["-q", "build_ext", "--build-lib", out, "--build-temp", "tmp",
                       "-j", "4"])
    """
)


def _build_ext(root, variant):
    """Returns dir containing aiokafka/record/_crecords/*.so for current sources."""
    rels = [r for r in _walk_sources(root)
            if os.path.dirname(r) == EXT_DIR and (r.endswith(EXT_SOURCES) or os.path.basename(r) in EXT_C)]
    h = _hash_files(root, rels, extra=variant + sys.version)
    cache = os.path.join(BUILD, "ext", "%s-%s" % (h, variant))
    marker = os.path.join(cache, "OK")
    if os.path.exists(marker):
        try:
            os.utime(cache)
        except OSError:
            pass
        return cache
    work = cache + ".work.%d" % os.getpid()
    shutil.rmtree(work, ignore_errors=True)
    os.makedirs(os.path.join(work, EXT_DIR))
    for r in rels:
        shutil.copy2(os.path.join(root, r), os.path.join(work, r))
    for d in ("aiokafka", os.path.join("aiokafka", "record"), EXT_DIR):
        open(os.path.join(work, d, "__init__.py"), "a").close()
    with open(os.path.join(work, "b.py"), "w") as f:
        f.write(_BUILD_SCRIPT)
    env = dict(os.environ)
    if variant == "asan":
        env["CC"] = "clang"
        env["LDSHARED"] = "clang -shared"
    env.pop("PYTHONPATH", None)
    p = subprocess.run([PY, "b.py", variant, "lib"], cwd=work, env=env,
                       stdout=subprocess.PIPE, stderr=subprocess.STDOUT, text=True)
    if p.returncode != 0:
        tail = p.stdout[-4000:]
        shutil.rmtree(work, ignore_errors=True)
        raise StageError("extension build failed (%s):\n%s" % (variant, tail))
    os.makedirs(os.path.dirname(cache), exist_ok=True)
    # publish atomically: concurrent first builds of the same sources must not see a half-moved tree
    lib = os.path.join(work, "lib")
    open(os.path.join(lib, "OK"), "w").close()
    try:
        if os.path.isdir(cache) and not os.path.exists(marker):
            shutil.rmtree(cache, ignore_errors=True)     # leftover of an interrupted build
        os.rename(lib, cache)
    except OSError:
        if not os.path.exists(marker):
            shutil.rmtree(work, ignore_errors=True)
            raise
    shutil.rmtree(work, ignore_errors=True)
    return cache


PRUNE_AGE = 6 * 3600      # never delete what a concurrent run (thorough tiers take < 1 h) may still import


def _prune(d, keep):
    import time
    try:
        ents = sorted((os.path.join(d, e) for e in os.listdir(d)), key=os.path.getmtime)
    except (FileNotFoundError, OSError):
        return
    now = time.time()
    for e in ents[:-keep]:
        try:
            if now - os.path.getmtime(e) > PRUNE_AGE:
                shutil.rmtree(e, ignore_errors=True)
        except OSError:
            pass


def stage(variant="plain"):
    """Return a directory to put on sys.path: it contains package `aiokafka`
    built from the current working tree of VERIF_REPO."""
    root = repo_root()
    if not os.path.isdir(os.path.join(root, "aiokafka")):
        raise StageError("no aiokafka package under %s" % root)
    rels = _walk_sources(root)
    h = _hash_files(root, rels, extra=variant + sys.version)
    dest = os.path.join(BUILD, "stage", "%s-%s" % (h, variant))
    marker = os.path.join(dest, "OK")
    if os.path.exists(marker):
        os.utime(dest)
        return dest
    ext = _build_ext(root, variant)
    tmp = dest + ".tmp.%d" % os.getpid()
    shutil.rmtree(tmp, ignore_errors=True)
    for r in rels:
        if r.endswith((".pyx", ".pxd", ".pxi", ".h", ".c")):
            continue
        os.makedirs(os.path.dirname(os.path.join(tmp, r)), exist_ok=True)
        shutil.copy2(os.path.join(root, r), os.path.join(tmp, r))
    sod = os.path.join(ext, EXT_DIR)
    for f in os.listdir(sod):
        if f.endswith(".so"):
            shutil.copy2(os.path.join(sod, f), os.path.join(tmp, EXT_DIR, f))
    # the package metadata version lookup in aiokafka/__init__ does not need dist-info
    open(os.path.join(tmp, "OK"), "w").close()
    if os.path.exists(marker):           # a concurrent run published the same tree meanwhile
        shutil.rmtree(tmp, ignore_errors=True)
        return dest
    shutil.rmtree(dest, ignore_errors=True)
    try:
        os.rename(tmp, dest)
    except OSError:
        shutil.rmtree(tmp, ignore_errors=True)
        if not os.path.exists(marker):
            raise
    _prune(os.path.join(BUILD, "stage"), 6)
    _prune(os.path.join(BUILD, "ext"), 6)
    return dest


def asan_env():
    lib = subprocess.run(["clang", "-print-file-name=libclang_rt.asan-x86_64.so"],
                         stdout=subprocess.PIPE, text=True).stdout.strip()
    env = dict(os.environ)
    env["LD_PRELOAD"] = lib
    env["PYTHONMALLOC"] = "malloc"
    # freed memory is overwritten (0xbd): a batch that keeps reading a buffer it no longer owns through an
    # uninstrumented routine (zlib's crc32) then at least answers differently than before the buffer was dropped
    env["ASAN_OPTIONS"] = ("detect_leaks=0:halt_on_error=0:abort_on_error=0:exitcode=77:allocator_may_return_null=1"
                           ":max_free_fill_size=1048576:free_fill_byte=189")
    return env


def activate(path):
    """Make `import aiokafka` resolve to the staged tree in this process."""
    for k in [k for k in sys.modules if k == "aiokafka" or k.startswith("aiokafka.")]:
        del sys.modules[k]
    sys.path[:] = [p for p in sys.path if os.path.abspath(p or ".") != os.path.abspath(repo_root())]
    sys.path.insert(0, path)
    # The editable install of /repo registers a meta-path finder; drop it.
    sys.meta_path[:] = [f for f in sys.meta_path
                        if "editable" not in type(f).__module__ and "editable" not in type(f).__name__.lower()
                        and "editable" not in getattr(f, "__module__", "")]
    import aiokafka  # noqa
    if not os.path.abspath(aiokafka.__file__).startswith(os.path.abspath(path)):
        raise StageError("aiokafka imported from %s, expected stage %s" % (aiokafka.__file__, path))
    return aiokafka


if __name__ == "__main__":
    v = sys.argv[1] if len(sys.argv) > 1 else "plain"
    print(stage(v))
