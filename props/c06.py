"""C06 - group membership converges and is not disturbed by the member itself."""
from vlib.core import Outcome
from vlib.runner import Campaign

from . import _group_sim as GS
from . import _consumer_sim as CSIM

ID = "C06"
LEVEL = "exploration"
RULE = ("Case = 1-4 real group consumers (joining at drawn times, stopping, being killed, changing "
        "subscription) x 1-3 configured assignors in drawn order x JoinGroup personality v0..v5 (with and "
        "without MEMBER_ID_REQUIRED) x coordinator error codes / drops / lost replies / delays at any "
        "JoinGroup/SyncGroup/Heartbeat/OffsetCommit/OffsetFetch/FindCoordinator request x coordinator moves "
        "with or without group state x session expiry x drawn latencies; then a quiet point. Non-trivial = "
        ">=2 assignors configured, or a coordinator error/failover fired, or the MEMBER_ID_REQUIRED path was "
        "taken. Distinct = distinct case value.")
ASSUMPTIONS = ["simulated group coordinator (vlib/simkafka/group.py: Kafka's classic group state machine)",
               "bounded liveness: T_conv = 3*(rebalance+session timeout) + 20*backoff + 2*metadata age + 4*request timeout + 2 s after the quiet point",
               "application loops keep polling and swallow raised KafkaErrors"]

GROUP_APIS = ("join", "sync")


def metadata_change_times(c, tag, events=None):
    """Instants at which the member learnt of a new topic or partition count (a metadata reply that differs from
    what it knew): for pattern subscriptions and group leaders this is a subscription / assignment-input change.
    With `events`: also the instant a newly subscribed *pattern* takes effect - subscribe(pattern=) only stores the
    pattern, the topic list changes when the next metadata reply is delivered (which may be much later when the
    request subscribe() triggered fails), whether or not that reply differs from what the client knew."""
    md_changes = []
    for e in events or ():
        if e["kind"] == "subscribe" and e["member"] == tag and isinstance(e.get("topics"), str):
            later = [x.t_end for x in c.arrivals if x.api == "metadata" and x.client_id == tag and x.delivered
                     and x.reply and x.t_end is not None and x.t_end >= e["t"] - 1e-9]
            if later:
                md_changes.append(min(later))
    prev_sig = None
    for x in c.arrivals:
        if x.api == "metadata" and x.client_id == tag and x.delivered and x.reply and x.t_end is not None:
            sig = sorted((t["topic"], len(t["partitions"])) for t in x.reply["topics"] if not t.get("error"))
            known = dict(prev_sig or [])
            if prev_sig is not None and any(known.get(tn) != n for tn, n in sig):
                md_changes.append(x.t_end)
            if prev_sig is None:
                prev_sig = sig
            else:
                known.update(dict(sig))
                prev_sig = sorted(known.items())
    return md_changes


def group_checks(case, obs, out):
    """Clauses shared with C05/C04 runs: advertises_all, join_then_sync."""
    c = obs.cluster
    want = list(case["cfg"]["assignors"])
    by_member = {}
    for a in c.arrivals:
        if a.api in ("join", "sync", "heartbeat", "leave", "offset_commit"):
            by_member.setdefault(a.client_id, []).append(a)
    for tag, arrs in by_member.items():
        for a in arrs:
            if a.api == "join":
                names = [p["name"] for p in a.body["protocols"]]
                if names != want:
                    out.fail("advertises_all", "join_group_protocol_list", {"member": tag, "sent": names, "configured": want,
                                                                           "arrival": a.seq})
                # ... and the timeouts the coordinator is to apply to this member are the configured ones
                cfg = case["cfg"]
                sent = (a.body.get("session_timeout"), a.body.get("rebalance_timeout"))
                conf = (cfg["session_timeout_ms"], cfg["rebalance_timeout_ms"] if "rebalance_timeout" in a.body else None)
                if sent != conf:
                    out.fail("advertises_all", "join_group_timeouts", {"member": tag, "sent": sent, "configured": conf,
                                                                      "version": a.ver, "arrival": a.seq})
        # a successful JoinGroup reply is followed by SyncGroup for that generation / member id
        seq = [a for a in arrs if a.api in GROUP_APIS]
        sub_changes = [e for e in obs.events if e["kind"] == "subscribe" and e["member"] == tag]
        md_changes = metadata_change_times(c, tag, obs.events)
        for i, a in enumerate(seq):
            if a.api != "join" or not a.reply or a.reply.get("error") != 0 or a.t_end is None or not a.delivered:
                continue
            if a.fault is not None:
                continue            # the reply the client saw is not the one recorded / was lost
            # delivered?  (connection alive until delivery)
            nxt = seq[i + 1] if i + 1 < len(seq) else None
            gen, mid = a.reply["generation"], a.reply["member_id"]
            t0 = a.t_end
            if nxt is None:
                continue
            # excuses: a fault plan directive fired, a subscription-changing call or topic metadata change
            t1 = nxt.t_written
            # a change made while this rebalance attempt was under way (since the member's previous
            # group request: revoke callback, JoinGroup in flight) also voids the reply
            tw = seq[i - 1].t_written if i > 0 else 0.0
            excused = any(tw - 1e-9 <= f[0] <= t1 + 1e-9 for f in c.fault_log) or \
                any(tw - 1e-9 <= e["t"] <= t1 + 1e-9 for e in sub_changes) or \
                any(tw - 1e-9 <= t <= t1 + 1e-9 for t in md_changes) or \
                any(x.api in ("offset_commit", "heartbeat") and x.t_end is not None and tw - 1e-9 <= x.t_end <= t1 + 1e-9
                    and CSIM._reply_has_error(x.reply) for x in arrs) or \
                any(e["kind"] == "killed" and e["member"] == tag for e in obs.events) or \
                any(e["kind"] == "stop_call" and e["member"] == tag and e["t"] <= t1 + 1e-9 for e in obs.events)
            # metadata changes (partition counts / topics) between reply and next request
            for f in c.fault_log:
                pass
            if nxt.api == "sync":
                if (nxt.body["generation"], nxt.body["member_id"]) != (gen, mid) and not excused:
                    out.fail("join_then_sync", "sync_with_other_identity",
                             {"member": tag, "join_reply": [gen, mid], "sync": [nxt.body["generation"], nxt.body["member_id"]]})
            elif not excused:
                out.fail("join_then_sync", "join_followed_by_join",
                         {"member": tag, "join_arrival": a.seq, "reply": [gen, mid], "next_join_arrival": nxt.seq,
                          "next_protocols": [p["name"] for p in nxt.body["protocols"]],
                          "t_reply": t0, "t_next": t1})


def generation_completeness(case, obs, out):
    """Every generation's distributed assignments cover every partition (that existed from the start) of every topic
    some member of that generation subscribed to: the leader assigns from metadata fetched for the group's whole
    topic list.  Only judged when no request of the case is dropped or lost - a failed metadata request lets the
    leader legitimately assign from what it knows and repair it after the next refresh - and not for a generation
    whose leader's application changed the leader's own subscription while that generation was being formed."""
    c = obs.cluster
    clean_net = all(f.get("act") in ("error", "delay") and f.get("sel") != "metadata" for f in case.get("faults", [])) \
        and not case.get("kills") and not any(e.get("ev") in ("node_down", "leader_gone") for e in case.get("env", []))
    g = c.groups.groups.get("g")
    if not clean_net or g is None:
        return
    for gen in g.generations:
        if not gen["assignments"]:
            continue
        # The leader's own application changed its subscription between the leader's JoinGroup and its SyncGroup: the
        # change replaces the topic list the client tracks (the one the leader had just widened to the group's
        # topics), so the assignment is computed without the dropped topic.  The change itself sends the leader
        # straight back into a rebalance, and the property excuses "a subscription change [that] intervenes".
        ltag = (gen["members"].get(gen.get("leader")) or {}).get("client_id")
        t_join = max([a.t for a in c.arrivals if a.api == "join" and a.client_id == ltag and a.t <= gen["t"] + 1e-9],
                     default=gen["t"])
        if any(e["kind"] == "subscribe" and e["member"] == ltag and t_join - 1e-9 <= e["t"] <= gen.get("t_sync", gen["t"]) + 1e-9
               for e in obs.events):
            out.label("generation_completeness:leader_resubscribed_meanwhile")
            continue
        seen = set()
        union = set()
        try:
            for mid, raw in gen["assignments"].items():
                seen |= set(GS.decode_assignment(raw))
            for mid, minfo in gen["members"].items():
                union |= set(GS.decode_subscription(minfo["metadata"]))
        except Exception:
            continue
        for t in sorted(union):
            n0 = case["cluster"]["topics"].get(t)
            if not n0:
                continue
            missing = [p for p in range(n0) if (t, p) not in seen]
            if missing:
                out.fail("covers", "subscribed_partition_not_assigned_in_generation",
                         {"generation": gen["generation"], "topic": t, "missing": missing, "leader": gen.get("leader"),
                          "subscriptions": {m: sorted(GS.decode_subscription(i["metadata"])) for m, i in gen["members"].items()}})
                return


def evaluate(case, obs):
    out = Outcome()
    c = obs.cluster
    for e in c.harness_errors:
        raise RuntimeError("simulator error: %s" % e)
    if obs.deadlock:
        out.fail("converges", "deadlock", {"deadlock": obs.deadlock})
        return out
    group_checks(case, obs, out)
    generation_completeness(case, obs, out)
    for e in obs.events:
        if e["kind"] == "crash":
            out.fail("converges", "consumer_api_raised:" + e["error"], {"member": e["member"], "detail": e["detail"],
                                                                        "cause": e["cause"], "where": e["where"], "cause_tb": e["cause_tb"]})
    cfg = case["cfg"]
    live = [tag for tag, m in obs.members.items() if m["state"] in ("running", "stopping", "stopped") and
            not any(e["kind"] in ("stop_call",) and e["member"] == tag and e.get("why") == "program" for e in obs.events)
            and not any(e["kind"] == "killed" and e["member"] == tag for e in obs.events)
            and not any(e["kind"] == "start_failed" and e["member"] == tag for e in obs.events)]
    never_started = [tag for tag, m in obs.members.items() if m["state"] == "init"]
    t_conv = obs.windows.get("converged_at")
    t_stable = obs.windows.get("stable_until")
    gen = obs.windows.get("group_generation")
    # ---- converges: every live member heartbeats successfully in the latest generation
    hb_ok = {}
    for a in c.arrivals:
        if a.api == "heartbeat" and t_conv is not None and t_conv <= a.t <= t_stable and a.reply is not None:
            ok = a.reply.get("error") == 0 and a.body["generation"] == gen
            hb_ok.setdefault(a.client_id, []).append(ok)
    # a member whose start() has still not returned when everybody else has converged (its subscribe event shows that
    # the consumer was constructed and start() called; nothing killed or stopped it)
    for tag in never_started:
        if t_conv is None:
            break
        began = [e for e in obs.events if e["kind"] == "subscribe" and e["member"] == tag]
        ended = any(e["kind"] in ("killed", "start_failed", "stop_call") and e["member"] == tag for e in obs.events)
        if began and not ended and began[0]["t"] < t_conv - 1.0:
            out.fail("converges", "start_did_not_return",
                     {"member": tag, "start_called_at": began[0]["t"], "converged_at": t_conv, "bound": obs.bound,
                      "joins": sum(1 for a in c.arrivals if a.api == "join" and a.client_id == tag)})
    for tag in live:
        if tag in never_started:
            continue
        hs = hb_ok.get(tag, [])
        if not hs or not all(hs):
            out.fail("converges", "member_not_heartbeating_in_latest_generation",
                     {"member": tag, "heartbeats": hs[:10], "generation": gen, "group_members": obs.windows.get("group_members"),
                      "group_state": obs.windows.get("group_state"), "bound": obs.bound,
                      "errors": [e.get("error") for e in obs.events if e["kind"] == "api_error" and e["member"] == tag][-5:]})
    # ---- coverage: adopted assignments cover every partition of every subscribed topic
    snap = obs.windows.get("assignments") or {}
    subscribed = set()
    for tag in live:
        last = [e for e in obs.events if e["kind"] == "subscribe" and e["member"] == tag]
        if last:
            t = last[-1]["topics"]
            if isinstance(t, str):
                import re
                subscribed |= {name for name in c.topics if re.match(t, name)}
            else:
                subscribed |= {x for x in t if x in c.topics}
    want = {GS.tpk(t, pl.partition) for t in subscribed for pl in c.topics[t]}
    got = []
    for tag in live:
        if isinstance(snap.get(tag), list):
            got.extend(snap[tag])
    if live and not [1 for f in out.failures if f.clause == "converges"]:
        if set(got) != want or len(got) != len(set(got)):
            out.fail("converges", "assignments_do_not_cover_subscribed_partitions",
                     {"assignments": snap, "missing": sorted(want - set(got)), "extra": sorted(set(got) - want),
                      "twice": sorted({x for x in got if got.count(x) > 1})})
    # ---- stays_stable: no JoinGroup in the further window
    joins = [(a.seq, a.client_id, a.t) for a in c.arrivals if a.api == "join" and t_conv is not None and t_conv < a.t <= t_stable]
    if joins:
        out.fail("stays_stable", "join_group_after_convergence", {"joins": joins[:6], "window": [t_conv, t_stable]})
    if obs.hung:
        out.label("member_did_not_stop")       # termination of stop() is C19's subject
    # ---- non-triviality
    coord_fault = any(isinstance(f[1], dict) and (f[1].get("sel") in ("join", "sync", "heartbeat", "offset_commit", "offset_fetch",
                                                                       "find_coordinator") or f[1].get("ev") == "move_group_coord")
                      for f in c.fault_log)
    mid_req = any(a.api == "join" and a.reply and a.reply.get("error") == 79 for a in c.arrivals)
    out.nontrivial = bool(len(cfg["assignors"]) >= 2 or coord_fault or mid_req)
    out.label("assignors_%d" % len(cfg["assignors"]), "members_%d" % len(case["members"]),
              "join_v%s" % case["cluster"].get("join_max"))
    if coord_fault:
        out.label("coordinator_fault")
    if mid_req:
        out.label("member_id_required")
    if obs.killed:
        out.label("member_killed")
    if any(e["kind"] == "stop_call" and e.get("why") == "program" for e in obs.events):
        out.label("member_stopped")
    out.info = {"generation": gen, "live": live, "joins": sum(1 for a in c.arrivals if a.api == "join"),
                "vtime": round(obs.vtime, 1)}
    return out


def execute(case):
    return evaluate(case, GS.run(case))


ERR = {"join": [14, 15, 16, 25, 27], "sync": [15, 16, 22, 25, 27], "heartbeat": [15, 16, 22, 25, 27],
       # 12 OFFSET_METADATA_TOO_LARGE: a commit refused for good (handed to the application, the consumer goes on)
       "offset_commit": [14, 15, 16, 7, 22, 25, 27, 12], "offset_fetch": [14, 16], "find_coordinator": [15],
       "fetch": [6, 3, 78, 9], "metadata": [5]}     # 78 OFFSET_NOT_AVAILABLE, 9 REPLICA_NOT_AVAILABLE: retriable


def strategy(focus="membership"):
    from hypothesis import strategies as st

    @st.composite
    def cases(draw):
        nodes = draw(st.integers(1, 3))
        topics = {"t0": draw(st.integers(1, 4))}
        if draw(st.booleans()):
            topics["t1"] = draw(st.integers(1, 3))
        names = draw(st.permutations(["range", "roundrobin", "sticky"]))
        assignors = list(names[:draw(st.sampled_from([1, 1, 2, 3]))])
        cfg = {"assignors": assignors,
               "session_timeout_ms": draw(st.sampled_from([600, 1000, 2000])),
               "heartbeat_interval_ms": draw(st.sampled_from([50, 100, 200])),
               "rebalance_timeout_ms": draw(st.sampled_from([800, 1500, 3000])),
               "retry_backoff_ms": draw(st.sampled_from([10, 50])), "request_timeout_ms": 0,
               "auto_commit": draw(st.booleans()), "auto_commit_interval_ms": draw(st.sampled_from([50, 200, 500])),
               "metadata_max_age_ms": draw(st.sampled_from([300, 1000])),
               # an application that stops polling for longer than this leaves the group and rejoins on its next poll
               "max_poll_interval_ms": draw(st.sampled_from([300000, 300000, 300000, 400, 1000]))}
        # as with the defaults (40 s vs 30 s) a JoinGroup must be allowed to wait for the whole rebalance
        cfg["request_timeout_ms"] = cfg["rebalance_timeout_ms"] + draw(st.sampled_from([300, 1000]))
        join_max = draw(st.sampled_from([5, 5, 2, 1, 0]))
        nm = draw(st.integers(1, 4))
        members = []
        for i in range(nm):
            tl = sorted(topics) if draw(st.integers(0, 3)) else [draw(st.sampled_from(sorted(topics)))]
            spec = {"topics": tl, "start_at": draw(st.sampled_from([0.0, 0.0, 0.05, 0.3, 1.0, 2.5])),
                    "callback_delay": draw(st.sampled_from([0, 0, 0.01, 0.2])), "ops": []}
            # a revoke callback may take longer than the session timeout (the member keeps heartbeating while it
            # runs) as long as it leaves room inside the rebalance timeout; the assigned callback runs before the
            # heartbeat task is restarted, so it has to stay below the session timeout (see DESIGN.md 8.6)
            # (JoinGroup v0 has no rebalance timeout: the broker uses the session timeout instead)
            if cfg["rebalance_timeout_ms"] >= 1500 and join_max >= 1 and draw(st.integers(0, 3)) == 0:
                spec["revoke_delay"] = 0.7
            if draw(st.integers(0, 5)) == 0:
                spec["topics"] = "t.*"
            spec["loop_poll"] = draw(st.sampled_from(["getmany", "getmany", "getone"]))
            if draw(st.integers(0, 3)) == 0:
                spec["listener_style"] = "delegating"
            for _ in range(draw(st.integers(0, 8))):
                r = draw(st.integers(0, 9))
                if r <= 4:
                    spec["ops"].append(["poll", draw(st.sampled_from(["getmany", "getone"])), draw(st.sampled_from([0.05, 0.2])),
                                        draw(st.sampled_from([None, 1, 3]))])
                elif r <= 6:
                    spec["ops"].append(["sleep", draw(st.sampled_from([0.01, 0.1, 0.5, 1.5]))])
                elif r == 7:
                    spec["ops"].append(["commit"])
                elif r == 8:
                    spec["ops"].append(["subscribe", [draw(st.sampled_from(sorted(topics)))]])
                else:
                    spec["ops"].append(["stop"])
                    break
            members.append(spec)
        kills = []
        if nm > 1 and draw(st.integers(0, 3)) == 0:
            kills.append({"member": "m%d" % draw(st.integers(0, nm - 1)), "after": draw(st.integers(3, 40))})
        faults = []
        for _ in range(draw(st.integers(0, 6))):
            sel = draw(st.sampled_from(["join", "join", "sync", "sync", "heartbeat", "heartbeat", "offset_commit",
                                        "offset_fetch", "find_coordinator", "fetch", "metadata"]))
            # swallow: the connection goes silently dead - this request and everything behind it is never answered
            act = draw(st.sampled_from(["error", "error", "drop", "apply_drop", "no_reply", "delay", "swallow"]))
            if sel == "metadata":
                act = draw(st.sampled_from(["stale", "drop", "delay"]))
            faults.append({"sel": sel, "k": draw(st.integers(0, 8)), "act": act, "code": draw(st.sampled_from(ERR[sel])),
                           "delay": draw(st.sampled_from([0.05, 0.4, 1.2]))})
            if focus == "membership" and sel == "offset_fetch" and act == "error" and draw(st.booleans()):
                # a committed-offset lookup refused for good (GROUP_AUTHORIZATION_FAILED): the error goes to the
                # application; the member stays a member and keeps up with later rebalances
                faults[-1]["code"] = 30
        if draw(st.integers(0, 2)) == 0:
            # a burst: the same kind of request is refused several times in a row (a coordinator that moved and is
            # still loading answers NOT_COORDINATOR, then COORDINATOR_NOT_AVAILABLE / LOAD_IN_PROGRESS)
            sel = draw(st.sampled_from(["offset_commit", "offset_commit", "heartbeat", "join", "sync", "offset_fetch"]))
            k0 = draw(st.integers(0, 6))
            # (now and then a long one: the coordinator keeps loading for longer than max_poll_interval_ms)
            for j in range(draw(st.sampled_from([2, 3, 3, 14]))):
                faults.append({"sel": sel, "k": k0 + j, "act": "error",
                               "code": draw(st.sampled_from([c for c in ERR[sel] if c in (14, 15, 16)] or ERR[sel])), "delay": 0.05})
        env = []
        for _ in range(draw(st.integers(0, 3))):
            r = draw(st.integers(0, 5))
            at = draw(st.sampled_from([0.1, 0.4, 1.0, 2.0, 3.5]))
            if r <= 1 and nodes > 1:
                env.append({"at": at, "ev": "move_group_coord", "to": draw(st.integers(0, nodes - 1)),
                            "keep_state": draw(st.booleans())})
            elif r == 2:
                env.append({"at": at, "ev": "add_partitions", "topic": "t0", "count": draw(st.integers(1, 2))})
            elif r == 3 and "t1" not in topics:
                env.append({"at": at, "ev": "add_topic", "topic": "t1", "partitions": draw(st.integers(1, 2))})
            else:
                t = draw(st.sampled_from(sorted(topics)))
                env.append({"at": at, "ev": "append", "tp": [t, draw(st.integers(0, topics[t] - 1))], "n": draw(st.integers(1, 3))})
        return {"cfg": cfg, "cluster": {"nodes": nodes, "topics": topics, "join_max": join_max,
                                        "group_coord": draw(st.integers(0, 2)), "initial": [3, 2]},
                "members": members, "kills": kills, "faults": faults, "env": env,
                "run_for": draw(st.sampled_from([3.0, 5.0])),
                "lat": draw(st.lists(st.sampled_from([0.0005, 0.001, 0.004, 0.015]), min_size=1, max_size=4)),
                "chunks": [0], "rng_seed": draw(st.integers(0, 2 ** 31)),
                "debug_log": draw(st.integers(0, 7)) == 0}
    return cases()


def subscription_change_cases(shard, nshards, step):
    """A member replaces its subscription (subscribe() with other topics, or a second subscribe back) at a swept
    instant while one SyncGroup or JoinGroup reply of the group is held back for 0.4 s: the change lands before the
    join, between the JoinGroup reply and the SyncGroup reply, or after the join completed.  The member has to end up
    in the latest generation with the partitions of its new subscription in every case."""
    i = 0
    for sel in ("sync", "join"):
        for k in (0, 1, 2, 3):
            for who in (0, 1):
                for start1 in (0.0, 0.3):
                    d = 0.0
                    while d <= 1.3001:
                        i += 1
                        if i % nshards == shard:
                            members = [{"topics": ["t0"], "start_at": 0.0, "callback_delay": 0, "ops": [], "loop_poll": "getmany"},
                                       {"topics": ["t0"], "start_at": start1, "callback_delay": 0, "ops": [], "loop_poll": "getmany"}]
                            members[who]["ops"] = [["sleep", round(d, 3)], ["subscribe", ["t1"]]] + \
                                ([["sleep", 0.05], ["subscribe", ["t0", "t1"]]] if k % 2 else [])
                            yield {"cfg": {"assignors": ["range"], "session_timeout_ms": 1000, "heartbeat_interval_ms": 100,
                                           "rebalance_timeout_ms": 1500, "retry_backoff_ms": 10, "request_timeout_ms": 2000,
                                           "auto_commit": True, "auto_commit_interval_ms": 200, "metadata_max_age_ms": 1000,
                                           "max_poll_interval_ms": 300000},
                                   "cluster": {"nodes": 1, "topics": {"t0": 2, "t1": 2}, "join_max": 5, "group_coord": 0,
                                               "initial": [3, 2]},
                                   "members": members, "kills": [],
                                   "faults": [{"sel": sel, "k": k, "act": "delay", "code": 0, "delay": 0.4}], "env": [],
                                   "run_for": 3.0, "lat": [0.001], "chunks": [0], "rng_seed": 11}
                        d += step


def partition_growth_cases(shard, nshards, step):
    """A topic of the group gains a partition at a swept instant while one SyncGroup or JoinGroup reply of the group is
    held back for 0.4 s; metadata is refreshed every 0.1 s, so the leader learns of the new partition before its
    join, between its JoinGroup and SyncGroup replies, while its SyncGroup is outstanding, or after the rebalance.  The
    group has to end up in a generation that covers the new partition, and stay there."""
    i = 0
    for sel in ("sync", "join"):
        for k in (0, 1, 2, 3):
            for start1 in (0.0, 0.3):
                for assignor in ("range", "roundrobin"):
                    d = 0.0
                    while d <= 1.3001:
                        i += 1
                        if i % nshards == shard:
                            members = [{"topics": ["t0"], "start_at": 0.0, "callback_delay": 0, "ops": [], "loop_poll": "getmany"},
                                       {"topics": ["t0"], "start_at": start1, "callback_delay": 0, "ops": [], "loop_poll": "getmany"}]
                            yield {"cfg": {"assignors": [assignor], "session_timeout_ms": 1000, "heartbeat_interval_ms": 100,
                                           "rebalance_timeout_ms": 1500, "retry_backoff_ms": 10, "request_timeout_ms": 2000,
                                           "auto_commit": True, "auto_commit_interval_ms": 200, "metadata_max_age_ms": 100,
                                           "max_poll_interval_ms": 300000},
                                   "cluster": {"nodes": 1, "topics": {"t0": 2}, "join_max": 5, "group_coord": 0,
                                               "initial": [3, 2]},
                                   "members": members, "kills": [],
                                   "faults": [{"sel": sel, "k": k, "act": "delay", "code": 0, "delay": 0.4}],
                                   "env": [{"at": round(d, 3), "ev": "add_partitions", "topic": "t0", "count": 1}],
                                   "run_for": 3.5, "lat": [0.001], "chunks": [0], "rng_seed": 29}
                        d += step


def slow_first_join_cases(shard, nshards):
    """The coordinator refuses the first N JoinGroup / FindCoordinator / SyncGroup requests (still loading, not
    available): the first join of a member stays outstanding for longer than max_poll_interval_ms.  A member that has
    never been assigned anything cannot have 'stopped polling': it must keep retrying and end up in the group."""
    i = 0
    for sel, code in (("join", 14), ("join", 15), ("find_coordinator", 15), ("sync", 14), ("sync", 16)):
        for n in (4, 8, 16, 30):
            for mpi in (300, 1000, 300000):
                for backoff in (10, 50):
                    for nm in (1, 2):
                        i += 1
                        if i % nshards != shard:
                            continue
                        members = [{"topics": ["t0"], "start_at": 0.0 if m == 0 else 0.15, "callback_delay": 0, "ops": [],
                                    "loop_poll": "getmany" if m == 0 else "getone"} for m in range(nm)]
                        yield {"cfg": {"assignors": ["roundrobin"], "session_timeout_ms": 1000, "heartbeat_interval_ms": 100,
                                       "rebalance_timeout_ms": 1500, "retry_backoff_ms": backoff, "request_timeout_ms": 2000,
                                       "auto_commit": True, "auto_commit_interval_ms": 200, "metadata_max_age_ms": 1000,
                                       "max_poll_interval_ms": mpi},
                               "cluster": {"nodes": 1, "topics": {"t0": 2}, "join_max": 5, "group_coord": 0, "initial": [3, 2]},
                               "members": members, "kills": [],
                               "faults": [{"sel": sel, "k": j, "act": "error", "code": code, "delay": 0.05} for j in range(n)],
                               "env": [], "run_for": 3.0, "lat": [0.001], "chunks": [0], "rng_seed": 13}


def refused_lookup_cases(shard, nshards):
    """The k-th committed-offset lookup of the group is refused for good (GROUP_AUTHORIZATION_FAILED: the error is handed
    to the application, the lookup task of that member is over); later a second member joins or leaves.  Every member
    still has to follow the rebalance and heartbeat in the new generation."""
    i = 0
    for k in (0, 1, 2, 3):
        for start1 in (0.3, 0.8, 1.5):
            for leave in (False, True):
                for assignor in ("range", "sticky"):
                    i += 1
                    if i % nshards != shard:
                        continue
                    members = [{"topics": ["t0"], "start_at": 0.0, "callback_delay": 0, "ops": [], "loop_poll": "getmany"},
                               {"topics": ["t0"], "start_at": start1, "callback_delay": 0, "loop_poll": "getmany",
                                "ops": ([["sleep", 0.6], ["stop"]] if leave else [])}]
                    yield {"cfg": {"assignors": [assignor], "session_timeout_ms": 1000, "heartbeat_interval_ms": 100,
                                   "rebalance_timeout_ms": 1500, "retry_backoff_ms": 20, "request_timeout_ms": 2000,
                                   "auto_commit": True, "auto_commit_interval_ms": 200, "metadata_max_age_ms": 1000,
                                   "max_poll_interval_ms": 300000},
                           "cluster": {"nodes": 1, "topics": {"t0": 2}, "join_max": 5, "group_coord": 0, "initial": [3, 2]},
                           "members": members, "kills": [],
                           "faults": [{"sel": "offset_fetch", "k": k, "act": "error", "code": 30, "delay": 0.05}],
                           "env": [], "run_for": 3.5, "lat": [0.001], "chunks": [0], "rng_seed": 17}


def campaigns(tier):
    th = tier == "thorough"
    return [Campaign("refused_lookup", "enum", execute=execute, cases=refused_lookup_cases, exhaustive=True, setup=GS.setup),
            Campaign("slow_first_join", "enum", execute=execute, cases=slow_first_join_cases, exhaustive=True,
                     setup=GS.setup),
            Campaign("group_sim", "hyp", execute=execute, strategy=strategy, examples=12000 if th else 1280,
                     setup=GS.setup, max_wall=1000 if th else 110, shrink_wall=40),
            Campaign("subscription_change", "enum", execute=execute,
                     cases=lambda s, n: subscription_change_cases(s, n, 0.0125 if th else 0.05), exhaustive=True,
                     setup=GS.setup),
            Campaign("partition_growth", "enum", execute=execute,
                     cases=lambda s, n: partition_growth_cases(s, n, 0.02 if th else 0.1), exhaustive=True,
                     setup=GS.setup)]
