"""C16 - the transactional API is a strict state machine with recoverable and fatal errors."""
import itertools

from vlib.core import Outcome
from vlib.runner import Campaign

from . import _txn_sim as TS
from . import c07

ID = "C16"
LEVEL = "exploration"
RULE = ("Case = a sequence of up to 6 calls over {begin, send(p0), send(p1), send_offsets_to_transaction, "
        "commit, abort, transaction() exit without / with exception} on a real transactional producer, "
        "optionally with one abortable (topic/group authorization), fatal (INVALID_PRODUCER_EPOCH, "
        "OUT_OF_ORDER_SEQUENCE_NUMBER, TRANSACTIONAL_ID_AUTHORIZATION_FAILED) or retriable error injected at "
        "the k-th request of one transactional API. All sequences up to length 5 (quick) / 6 (thorough) are "
        "enumerated without faults; sequence x fault pairs are drawn by Hypothesis. Oracle = 4-state "
        "reference model {READY, IN_TXN, ABORTABLE, FATAL} + independent read-committed reader + arrival log. "
        "Non-trivial = the sequence contains an illegal call after a legal prefix, or a fault fired. "
        "Distinct = distinct case value.")
ASSUMPTIONS = ["simulated coordinators/leaders (vlib/simkafka); error states are entered when the error reply has been delivered",
               "calls overlapping the delivery of the injected error are not judged (counted as 'ambiguous')"]

ALPHABET = ["begin", "send0", "send1", "offsets", "commit", "abort", "ctx_ok", "ctx_exc"]
SLACK = 0.002     # virtual seconds the client may need to act on a delivered error reply
ABORTABLE = {29: "TopicAuthorizationFailedError", 30: "GroupAuthorizationFailedError"}
FATAL = {47: "ProducerFenced", 45: "OutOfOrderSequenceNumber", 53: "TransactionalIdAuthorizationFailed"}


def to_steps(seq, waits=None, par_delay=0.0):
    steps = []
    for i, s in enumerate(seq):
        w = bool(waits[i % len(waits)]) if waits else False
        if s == "begin":
            steps.append(["begin"])
        elif s in ("send0", "send1"):
            steps.append(["send", int(s[-1]), 0, w])
        elif s == "sendx":                                   # topic t1 (needs cluster option second_topic)
            steps.append(["send", 100, 0, w])
        elif s == "par01x":                                  # three tasks send to t0:0, t0:1 and t1:0 at once
            steps.append(["par", [[["send", 0, 0, False]], [["send", 1, 0, False]], [["send", 100, 0, False]]]])
        elif s == "offsets":
            steps.append(["offsets", {"0": 5 + i, "1": 50 + i}, "g"])      # offsets of two source partitions
        elif s in ("po0", "po1"):                            # one task sends offsets while another sends to a partition
            steps.append(["par", [[["offsets", {"0": 5 + i}, "g"]],
                                  [["sleep", par_delay], ["send", int(s[-1]), 0, False]]]])
        elif s in ("commit", "abort"):
            steps.append([s])
        elif s == "commit_tmo":
            steps.append(["commit_tmo", 0.0004])
        elif s in ("ctx_ok", "ctx_exc"):
            # every other ctx_ok body goes on working after its fire-and-forget send (an error reply can land while the
            # body is still running and no call of the body observes it)
            steps.append([s, [["send", 0, 0, False]] + ([["sleep", 0.05]] if s == "ctx_ok" and i % 2 else [])] +
                         (["base"] if s == "ctx_exc" and i % 2 else []))
        elif s == "pause":
            steps.append(["sleep", 0.2])
    return steps


def make_case(seq, fault=None, waits=None, rng_seed=1, lat=None, same_leader=False, par_delay=0.0):
    return {"cfg": {"request_timeout_ms": 400, "retry_backoff_ms": 10, "max_batch_size": 400, "linger_ms": 0},
            "cluster": dict({"nodes": 2, "partitions": 2, "txn_coord": 0, "group_coord": 1},
                            **({"leaders": [1, 1]} if same_leader else {}),
                            **({"second_topic": True} if ("sendx" in seq or "par01x" in seq) else {})),
            "procs": [{"steps": to_steps(seq, waits, par_delay)}], "kills": [], "faults": [fault] if fault else [],
            "env": [], "marker_delays": [0.0], "lat": lat or [0.001], "chunks": [0], "rng_seed": rng_seed,
            "seq": list(seq), "run_for": 30.0}


def evaluate(case, obs):
    out = Outcome()
    c = obs.cluster
    for e in c.harness_errors:
        raise RuntimeError("simulator error: %s" % e)
    if obs.start_errors:
        out.label("start_failed")
        return out
    if obs.deadlock:
        out.fail("order_enforced", "deadlock", {"deadlock": obs.deadlock})
        return out
    fault = (case.get("faults") or [None])[0]
    fired = [(t, f, seq) for (t, f, seq) in c.fault_log if isinstance(f, dict) and f.get("sel")]
    err_kind = None
    t_err = None
    err_name = None
    if fired:
        code = fired[0][1].get("code")
        a = c.arrivals[fired[0][2]]
        t_err = a.t_end
        if code in ABORTABLE:
            err_kind, err_name = "abortable", ABORTABLE[code]
        elif code in FATAL:
            err_kind, err_name = "fatal", FATAL[code]
        else:
            err_kind = "retriable"
    if obs.hung:
        out.fail("order_enforced", "call_blocked", {"notes": obs.notes, "blocked": [s["step"] for s in obs.steps if "outcome" not in s]})
    # ---- walk the top-level steps with the reference model
    state = "READY"
    model_txn_sends = []          # send ids of the currently open model transaction
    committed_ids = []
    aborted_ids = []
    illegal_after_legal = False
    undecided = None            # sends of a transaction whose commit call the application stopped waiting for
    recovered = False           # an abort has completed after the abortable error: the producer is as good as new
    legal_seen = False
    ambiguous = 0
    err_applied = False
    # steps of concurrent tasks ("par") are recorded in start order: the model walks them in the order in which they
    # completed (for sequential programs this is the recorded order)
    top = sorted(obs.steps, key=lambda x: (x.get("t_return", 1e18), x["t_call"]))
    # map nested ctx sends: steps inside a ctx body are recorded after the ctx record itself; we only walk
    # top-level records (ctx records carry their own verdict) - nested sends have t_call inside the ctx span
    spans = [(s["t_call"], s.get("t_return", 1e18)) for s in top if s["step"] in ("ctx_ok", "ctx_exc")]

    def nested(s):
        return s["step"] == "send" and any(a <= s["t_call"] and s.get("t_return", 0) <= b for a, b in spans)
    sends = {s["id"]: s for s in obs.sends}
    for s in top:
        if nested(s):
            continue
        step = s["step"]
        oc = s.get("outcome")
        if oc is None:
            continue
        ok = oc[0] == "ok"
        # error state entered?
        if t_err is not None and err_kind in ("abortable", "fatal") and not err_applied:
            if s["t_call"] > t_err + SLACK and state not in ("ABORTABLE", "FATAL", "ERR_PENDING"):
                err_applied = True
                if state == "IN_TXN" or err_kind == "fatal":
                    state = "ABORTABLE" if err_kind == "abortable" else "FATAL"
                    aborted_ids.extend(model_txn_sends)
                    model_txn_sends = []
            elif s["t_call"] <= t_err + SLACK and s.get("t_return", 1e18) >= t_err - 1e-9:
                # the error reply landed while this call was running: either outcome is accepted, the
                # model follows the observed one
                ambiguous += 1
                err_applied = True
                in_txn = state == "IN_TXN" or (state == "READY" and step in ("ctx_ok", "ctx_exc"))
                if not ok and (in_txn or err_kind == "fatal"):
                    state = "ABORTABLE" if err_kind == "abortable" else "FATAL"
                    aborted_ids.extend(model_txn_sends)
                    model_txn_sends = []
                    if step in ("ctx_ok", "ctx_exc"):
                        aborted_ids.extend(x["send_id"] for x in top if x["step"] == "send" and
                                           s["t_call"] <= x["t_call"] <= s.get("t_return", 1e18) and "send_id" in x)
                    continue
                # fall through: the call succeeded, judge it by the pre-error state
        if undecided is not None:
            # the application gave up on a commit: the only thing judged is what an abort that REPORTS SUCCESS means
            if step == "abort" and ok:
                aborted_ids.extend(undecided)
                out.label("abort_succeeded_after_abandoned_commit")
            break
        if step == "commit_tmo":
            if state != "IN_TXN" or not ok:
                break                                   # only the legal, completed form is modelled
            if s.get("result") == "committed":
                committed_ids.extend(model_txn_sends)
                model_txn_sends = []
                state = "READY"
                continue
            undecided = list(model_txn_sends)
            model_txn_sends = []
            out.label("commit_abandoned_by_application")
            continue
        legal = {"READY": {"begin", "ctx_ok", "ctx_exc"},
                 "IN_TXN": {"send", "offsets", "commit", "abort"},
                 "ABORTABLE": {"abort"},
                 "FATAL": set()}[state]
        if step == "flush":
            continue
        if step not in legal:
            if legal_seen:
                illegal_after_legal = True
            if state == "FATAL" and step == "ctx_exc":
                # property: context exit returns silently when fatal - but entering the context is itself
                # a transactional call that must fail; either way nothing may be written
                continue
            if ok and not (state == "FATAL" and step in ("ctx_ok",)):
                out.fail({"READY": "order_enforced", "IN_TXN": "order_enforced", "ABORTABLE": "abortable",
                          "FATAL": "fatal"}[state], "illegal_call_accepted:%s_in_%s" % (step, state),
                         {"seq": case.get("seq"), "step": step, "state": state})
                # resynchronise the model conservatively
                if step == "begin":
                    state = "IN_TXN"
            elif state == "ABORTABLE" and step == "commit" and oc[1] != err_name:
                out.fail("abortable", "commit_raised_other_error", {"got": oc[1], "want": err_name})
            continue
        legal_seen = True
        if not ok:
            if err_kind == "retriable" or err_kind is None:
                out.fail("order_enforced", "legal_call_raised:%s_in_%s" % (step, state),
                         {"seq": case.get("seq"), "outcome": oc, "fault": fault})
            elif t_err is not None and s.get("t_return", 0) + 1e-6 < t_err:
                out.fail("order_enforced", "legal_call_raised_before_error:%s" % step, {"outcome": oc})
            elif state == "ABORTABLE" and step == "abort":
                out.fail("abortable", "abort_failed_after_abortable_error", {"outcome": oc})
            elif err_kind == "abortable" and recovered:
                out.fail("abortable", "legal_call_raised_after_abort:%s_in_%s" % (step, state),
                         {"seq": case.get("seq"), "outcome": oc, "fault": fault})
            continue
        if step == "begin":
            state = "IN_TXN"
            model_txn_sends = []
        elif step == "send":
            model_txn_sends.append(s["send_id"])
        elif step == "commit":
            committed_ids.extend(model_txn_sends)
            model_txn_sends = []
            state = "READY"
        elif step == "abort":
            aborted_ids.extend(model_txn_sends)
            model_txn_sends = []
            if err_applied and err_kind == "abortable":
                recovered = True
            state = "READY"
        elif step in ("ctx_ok", "ctx_exc"):
            inner = [x["send_id"] for x in top if x["step"] == "send" and s["t_call"] <= x["t_call"] and
                     x.get("t_return", 1e18) <= s.get("t_return", 1e18) and x["outcome"][0] == "ok"]
            (committed_ids if step == "ctx_ok" else aborted_ids).extend(inner)
            state = "READY"
    open_ids = list(model_txn_sends)
    # ---- visibility against the model
    rc, ru = TS.committed_view(obs)
    for i in committed_ids:
        if i not in rc:
            out.fail("order_enforced" if err_kind in (None, "retriable") else "abortable", "committed_send_not_visible",
                     {"id": i, "seq": case.get("seq"), "in_log": ru.get(i)})
    for i in aborted_ids + open_ids:
        if i in rc:
            out.fail("order_enforced" if err_kind in (None, "retriable") else err_kind, "uncommitted_send_visible",
                     {"id": i, "seq": case.get("seq")})
    for s in obs.sends:
        if s["call_outcome"][0] == "raised" and s["id"] in ru:
            out.fail("order_enforced", "rejected_send_reached_the_log", {"id": s["id"], "seq": case.get("seq")})
    # sends accepted in a transaction that later hit an error must not stay pending
    if err_kind == "fatal":
        for s in obs.sends:
            if s.get("accepted") and "outcome" not in s:
                out.fail("fatal", "pending_send_not_failed", {"id": s["id"]})
        # nothing written after the fatal error reply was delivered - except the one request of an operation that was
        # already under way when it arrived (e.g. a TxnOffsetCommit whose group-coordinator lookup had just returned and
        # whose connection to that node was still being set up: connect + ApiVersions take a few round trips)
        grace = max(SLACK, 12 * max(case.get("lat") or [0.001]))
        under_way = set()
        for a in sorted(c.arrivals, key=lambda x: x.t_written or 0):
            if a.api in c07.TXN_APIS and a.t_written > t_err + SLACK and a.client_id == "p0":
                if a.t_written <= t_err + grace and a.api not in under_way and a.api != "produce":
                    under_way.add(a.api)
                    out.label("request_under_way_at_fatal_error")
                    continue
                out.fail("fatal", "request_written_after_fatal_error:" + a.api,
                         {"arrival": a.seq, "t_written": a.t_written, "t_err": t_err})
                break
    # EndTxn only for transactions that the application ended (no faults: exact count)
    if err_kind is None and undecided is None:
        n_end = sum(1 for a in c.arrivals if a.api == "end_txn" and a.applied and a.extra.get("txn_index") is not None
                    and not a.extra.get("repeat"))
        ended_nonempty = 0
        for t in obs.txns:
            if t["end"] is not None and (t["sends"] or t["offsets"]):
                ended_nonempty += 1
        if n_end != ended_nonempty:
            out.fail("order_enforced", "end_txn_count", {"end_txn_applied": n_end, "transactions_ended": ended_nonempty,
                                                         "seq": case.get("seq")})
    # protocol order invariants of C07 hold here too
    sub = Outcome()
    c07_out = c07.evaluate(dict(case, kills=[1]), obs)      # kills=[1]: skip its liveness-under-retriable clause
    for f in c07_out.failures:
        if f.clause in ("add_before_produce", "no_end_with_inflight", "txn_scope"):
            out.failures.append(f)
    out.nontrivial = bool(illegal_after_legal or fired or undecided is not None)
    if illegal_after_legal:
        out.label("illegal_after_legal_prefix")
    if fired:
        out.label("fault_" + str(err_kind))
    if ambiguous:
        out.label("ambiguous_overlap")
    out.label("final_" + state, "len_%d" % len(case.get("seq") or []))
    out.info = {"seq": case.get("seq"), "outcomes": [(s["step"], s["outcome"][0] if "outcome" in s else None) for s in top][:10],
                "final_state": state}
    return out


def execute(case):
    return evaluate(case, TS.run(case))


def enum_cases(shard, nshards, maxlen):
    i = 0
    for n in range(1, maxlen + 1):
        for seq in itertools.product(ALPHABET, repeat=n):
            if i % nshards == shard:
                yield make_case(seq)
            i += 1


PARTIAL_SEQS = [["begin", "send0", "send1", "commit"], ["begin", "send1", "send0", "commit"],
                ["begin", "send0", "send1", "abort"], ["begin", "send0", "send1", "send0", "commit"],
                ["begin", "send0", "send1", "commit", "begin", "send0", "commit"],
                ["begin", "send0", "send1", "offsets", "commit"], ["begin", "send1", "send0", "pause", "commit", "begin"]]


def partial_fault_cases(shard, nshards):
    """Both partitions on one leader, sends not awaited: their batches travel in one ProduceRequest whose FIRST
    partition is answered with a fatal produce-level code while the others succeed."""
    i = 0
    for seq in PARTIAL_SEQS:
        for code in (45, 47):
            for k in (0, 1):
                for lat in ([0.001], [0.005], [0.0005, 0.005]):
                    i += 1
                    if i % nshards == shard:
                        yield make_case(seq, {"sel": "produce", "k": k, "act": "error_first", "code": code}, waits=[0],
                                        rng_seed=3, lat=lat, same_leader=True)


ABORTABLE_SEQS = [["begin", "send0", "send1", "abort", "begin", "send0", "commit"],
                  ["begin", "send0", "send1", "commit", "abort", "begin", "send0", "commit"],
                  ["begin", "send1", "send0", "send1", "abort", "begin", "send1", "commit"],
                  ["begin", "send0", "offsets", "abort", "begin", "send0", "commit"],
                  ["begin", "offsets", "send0", "send1", "abort", "begin", "offsets", "commit"],
                  ["begin", "send0", "send1", "offsets", "commit", "abort", "begin", "send1", "offsets", "commit"],
                  ["ctx_exc", "begin", "send0", "send1", "abort", "ctx_ok"]]


def abortable_fault_cases(shard, nshards):
    """An abortable error (authorization failure) hits the k-th AddPartitionsToTxn / AddOffsetsToTxn /
    TxnOffsetCommit of a transaction that has ALREADY added and written other partitions (sends awaited one by
    one) or not (sends issued back to back): the abort must undo everything and the next transaction must stand
    on its own."""
    i = 0
    for seq in ABORTABLE_SEQS:
        for sel, code in (("add_partitions", 29), ("add_offsets", 30), ("txn_offset_commit", 30)):
            for k in (0, 1, 2):
                for waits in ([1], [0], [1, 0]):
                    i += 1
                    if i % nshards == shard:
                        yield make_case(seq, {"sel": sel, "k": k, "act": "error", "code": code}, waits=waits, rng_seed=5,
                                        lat=[0.001], same_leader=bool(k % 2))


MIXED_AUTH_SEQS = [["begin", "sendx", "commit", "begin", "par01x", "abort", "begin", "send0", "commit"],
                   ["begin", "sendx", "send0", "commit", "begin", "par01x", "commit", "abort", "begin", "send0", "send1", "commit"],
                   ["begin", "send0", "sendx", "abort", "begin", "send0", "commit"],
                   ["begin", "sendx", "send0", "send1", "abort", "begin", "send0", "send1", "commit"],
                   ["begin", "send0", "sendx", "commit", "abort", "begin", "send0", "commit"],
                   ["begin", "send0", "send1", "sendx", "abort", "begin", "send1", "commit"]]


def mixed_authorization_cases(shard, nshards):
    """One AddPartitionsToTxn names an unauthorized topic (t1) next to authorized partitions of t0: the broker adds
    nothing, answers TOPIC_AUTHORIZATION_FAILED for t1 and OPERATION_NOT_ATTEMPTED for the rest.  None of the
    queued records may reach a leader, the transaction can only be aborted, the next one works."""
    i = 0
    for seq in MIXED_AUTH_SEQS:
        for k in (0, 1, 2):
            for waits in ([0], [1], [0, 1]):
                for same in (False, True):
                    i += 1
                    if i % nshards == shard:
                        yield make_case(seq, {"sel": "add_partitions", "k": k, "act": "auth_topic", "topic": "t1", "code": 29},
                                        waits=waits, rng_seed=7, lat=[0.001], same_leader=same)


CONCURRENT_SEQS = [["begin", "po1", "abort", "begin", "send1", "commit"],
                   ["begin", "send0", "po1", "abort", "begin", "send1", "commit"],
                   ["begin", "send0", "po1", "commit", "abort", "begin", "send0", "send1", "commit"],
                   ["begin", "po0", "send1", "abort", "begin", "po1", "commit"]]


def concurrent_abortable_cases(shard, nshards):
    """send_offsets_to_transaction fails with GROUP_AUTHORIZATION_FAILED (at AddOffsetsToTxn, at the group
    coordinator lookup or at TxnOffsetCommit) while another task has just sent to a partition that is still
    waiting for its AddPartitionsToTxn: that record must not reach the leader outside the transaction, the abort
    undoes everything and the next transaction stands on its own."""
    i = 0
    for seq in CONCURRENT_SEQS:
        for sel, k in (("add_offsets", 0), ("txn_offset_commit", 0), ("find_coordinator", 1), ("add_offsets", 1),
                       ("txn_offset_commit", 1)):
            for d in (0.0, 0.001, 0.002, 0.003, 0.004, 0.006, 0.008):
                for same in (False, True):
                    i += 1
                    if i % nshards == shard:
                        yield make_case(seq, {"sel": sel, "k": k, "act": "error", "code": 30}, waits=[1], rng_seed=9,
                                        lat=[0.001], same_leader=same, par_delay=d)


ABANDONED_SEQS = [["begin", "send0", "commit_tmo", "abort"], ["begin", "send0", "send1", "commit_tmo", "abort"],
                  ["begin", "send0", "offsets", "commit_tmo", "abort"], ["begin", "send1", "commit_tmo", "abort", "begin"]]


def abandoned_commit_cases(shard, nshards):
    """The application wraps commit_transaction() in wait_for() and gives up while EndTxn(COMMIT) is on its way (slow
    coordinator reply), then calls abort_transaction(): an abort that reports success means nothing of the transaction
    is visible; if the commit can no longer be stopped, the abort has to say so."""
    i = 0
    for seq in ABANDONED_SEQS:
        for delay in (0.002, 0.01, 0.05):
            for waits in ([1], [0]):
                for same in (False, True):
                    i += 1
                    if i % nshards == shard:
                        yield make_case(seq, {"sel": "end_txn", "k": 0, "act": "delay", "code": 0, "delay": delay}, waits=waits,
                                        rng_seed=21, lat=[0.001], same_leader=same)


def strategy():
    from hypothesis import strategies as st

    @st.composite
    def cases(draw):
        n = draw(st.integers(1, 6))
        seq = []
        # bias towards legal prefixes so that transactional requests actually happen
        state = "R"
        for _ in range(n):
            if draw(st.integers(0, 3)) == 0:
                s = draw(st.sampled_from(ALPHABET + ["pause"]))
            elif state == "R":
                s = draw(st.sampled_from(["begin", "begin", "ctx_ok", "ctx_exc"]))
            else:
                s = draw(st.sampled_from(["send0", "send1", "send0", "offsets", "commit", "abort", "pause", "po1"]))
            if s == "begin":
                state = "T"
            elif s in ("commit", "abort"):
                state = "R"
            seq.append(s)
        kind = draw(st.sampled_from(["abortable", "abortable", "fatal", "fatal", "retriable", "none"]))
        fault = None
        if kind == "abortable":
            sel = draw(st.sampled_from(["add_partitions", "add_offsets", "txn_offset_commit"]))
            fault = {"sel": sel, "k": draw(st.integers(0, 2)), "act": "error", "code": 29 if sel == "add_partitions" else 30}
        elif kind == "fatal":
            sel = draw(st.sampled_from(["add_partitions", "add_offsets", "txn_offset_commit", "end_txn", "produce"]))
            codes = [47, 53] if sel != "produce" else [47, 45]
            fault = {"sel": sel, "k": draw(st.integers(0, 2)), "act": "error", "code": draw(st.sampled_from(codes))}
            if sel == "produce" and draw(st.booleans()):
                fault["act"] = "error_first"     # only the first partition of the request fails, the others succeed
        elif kind == "retriable":
            sel = draw(st.sampled_from(["add_partitions", "add_offsets", "txn_offset_commit", "end_txn", "produce"]))
            fault = {"sel": sel, "k": draw(st.integers(0, 2)), "act": draw(st.sampled_from(["error", "drop", "apply_drop"])),
                     # 51 CONCURRENT_TRANSACTIONS: the previous transaction's markers are still being written
                     "code": draw(st.sampled_from(([14, 15, 16, 51] if sel != "txn_offset_commit" else [14, 15, 16])
                                                  if sel != "produce" else [6, 7]))}
        return make_case(seq, fault, waits=draw(st.lists(st.integers(0, 1), min_size=1, max_size=4)),
                         rng_seed=draw(st.integers(0, 2 ** 31)),
                         lat=draw(st.lists(st.sampled_from([0.0005, 0.001, 0.005]), min_size=1, max_size=3)),
                         same_leader=draw(st.booleans()),
                         par_delay=draw(st.sampled_from([0.0, 0.001, 0.002, 0.004])))
    return cases()


def campaigns(tier):
    th = tier == "thorough"
    n = 6 if th else 5
    return [Campaign("call_sequences", "enum", execute=execute, cases=lambda s, k: enum_cases(s, k, n),
                     exhaustive=True, setup=TS.setup),
            Campaign("abortable_fault", "enum", execute=execute, cases=abortable_fault_cases, exhaustive=True,
                     setup=TS.setup),
            Campaign("mixed_authorization", "enum", execute=execute, cases=mixed_authorization_cases, exhaustive=True,
                     setup=TS.setup),
            Campaign("concurrent_abortable", "enum", execute=execute, cases=concurrent_abortable_cases, exhaustive=True,
                     setup=TS.setup),
            Campaign("abandoned_commit", "enum", execute=execute, cases=abandoned_commit_cases, exhaustive=True,
                     setup=TS.setup),
            Campaign("partial_produce_fault", "enum", execute=execute, cases=partial_fault_cases, exhaustive=True,
                     setup=TS.setup),
            Campaign("sequence_x_fault", "hyp", execute=execute, strategy=strategy, examples=40000 if th else 2500,
                     setup=TS.setup, max_wall=900 if th else 90, shrink_wall=30)]
