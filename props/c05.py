"""C05 - within a generation partitions have one owner; revoked partitions go silent."""
from vlib.core import Outcome
from vlib.runner import Campaign

from . import _consumer_sim as CS
from . import _group_sim as GS
from . import c06

ID = "C05"
LEVEL = "exploration"
RULE = ("Case = C06's group history generator (1-4 members with equal or different subscriptions incl. "
        "patterns, any configured assignor, joins/leaves/kills at drawn times, subscription changes, "
        "partition-count and topic additions, coordinator faults) with listeners that record the begin/end "
        "of every rebalance callback and assignment() snapshots, and application loops that record every "
        "delivered record. Non-trivial = a rebalance overlapped an in-flight fetch or a blocked getmany, or "
        "subscriptions differed, or a subscription changed during a rebalance. Distinct = distinct case value.")
ASSUMPTIONS = ["simulated group coordinator records, per generation, members, their JoinGroup metadata and the SyncGroup "
               "assignments it distributed (decoded with the reference codec)",
               "a generation's participants are the members the coordinator lists for it"]


def member_timelines(obs):
    tl = {}
    for e in obs.events:
        if e["member"] is not None:
            tl.setdefault(e["member"], []).append(e)
    return tl


def delivery_checks(case, obs, out, strict_positions=True):
    """revoked_silent + no_stale_data (C05) and the per-epoch start rule; returns per (member, epoch, tp)
    delivered offsets and epoch starts."""
    c = obs.cluster
    vis = {}
    for k, f in obs.final.items():
        vis[k] = [x[0] for x in CS.visible_records(f["decoded"], "read_uncommitted", f["hw"]) if x[0] >= f["log_start"]]
    # epoch start offsets: from the OffsetFetch replies the simulator sent to that member
    fetch_given = {}
    for a in c.arrivals:
        if a.api == "offset_fetch" and a.delivered and a.extra.get("offsets_given"):
            fetch_given.setdefault(a.client_id, []).append((a.t_end, a.extra["offsets_given"]))
    sync_ok = {}
    for a in c.arrivals:
        if a.api == "sync" and a.delivered and a.reply and a.reply.get("error") == 0 and a.t_end is not None:
            sync_ok.setdefault(a.client_id, []).append(a)
    # a member that left the group on its own (idle longer than max_poll_interval_ms, unsubscribe) knows that its
    # assignment is gone: nothing may be delivered from it once the LeaveGroup reply is in, until a new assignment
    leaves = {}
    for a in c.arrivals:
        if a.api == "leave" and a.delivered and a.t_end is not None:
            leaves.setdefault(a.client_id, []).append(a.t_end)
    tl = member_timelines(obs)
    for tag, evs in tl.items():
        ab = [e["t"] for e in evs if e["kind"] == "assigned_begin"]
        for e in evs:
            if e["kind"] != "deliver":
                continue
            prior = [t for t in leaves.get(tag, []) if t + 0.001 < e["t"]]
            # the coordination routine reacts to the leave once the request it is waiting for returns: an
            # auto-commit in flight, then (pattern subscribers) a metadata refresh that precedes join-prepare;
            # until then the old assignment is still being served
            md_wait = bool(prior) and any(
                x.client_id == tag and x.api in ("metadata", "offset_commit", "find_coordinator") and
                x.t_written is not None and x.t_written <= e["t"] and (x.t_end is None or x.t_end >= e["t"] - 0.001)
                for x in c.arrivals)
            if prior and not md_wait and not any(prior[-1] < t <= e["t"] for t in ab):
                out.fail("revoked_silent", "record_after_leaving_group", {"member": tag, "tp": e["tp"], "offset": e["offset"],
                                                                          "left_at": prior[-1], "delivered_at": e["t"]})
                break
    info = {}
    for tag, evs in tl.items():
        owned = None              # None = before the first assignment
        epoch_no = 0
        in_revoke = False
        epoch_deliv = {}
        t_epoch = None
        for e in evs:
            k = e["kind"]
            if k == "revoked_begin":
                in_revoke = True
                revoked = set(e["tps"])
                silent = set(owned or [])
                owned_before = owned
            elif k == "assigned_begin":
                in_revoke = False
                owned = set(e["tps"])
                epoch_no = e["epoch"]
                t_epoch = e["t"]
                if sorted(e["inside"]) != sorted(e["tps"]):
                    out.fail("adopts_sent", "assignment_inside_callback_differs", {"member": tag, "passed": e["tps"], "assignment()": e["inside"]})
            elif k == "deliver":
                tp = e["tp"]
                if in_revoke:
                    out.fail("revoked_silent", "record_during_revocation", {"member": tag, "tp": tp, "offset": e["offset"], "seq": e["seq"]})
                elif owned is None or tp not in owned:
                    out.fail("revoked_silent", "record_of_partition_not_assigned", {"member": tag, "tp": tp, "offset": e["offset"],
                                                                                  "owned": sorted(owned or [])})
                epoch_deliv.setdefault((epoch_no, tp), []).append((e["offset"], e["t"], e["seq"]))
        info[tag] = epoch_deliv
        # no_stale_data: inside an epoch, deliveries of a partition are consecutive visible records starting at the
        # committed offset the new owner was given (or the log start)
        for (ep, tp), lst in epoch_deliv.items():
            offs = [o for o, _, _ in lst]
            t_first = lst[0][1]
            ep_begin = [e["t"] for e in evs if e["kind"] == "assigned_begin" and e["epoch"] == ep]
            tb = ep_begin[0] if ep_begin else 0.0
            # the epoch's state exists from the SyncGroup reply on (the assigned callback may start later): every
            # assignment gets fresh partition state, so the committed offset must have been looked up since then
            syncs = [a.t_end for a in sync_ok.get(tag, []) if a.t_end <= tb + 1e-9]
            t0 = syncs[-1] if syncs else tb
            given = None
            for (t_end, g) in fetch_given.get(tag, []):
                if t0 - 1e-9 <= t_end <= t_first + 1e-9 and tp in g:
                    given = g[tp]
            if given is None:
                start = None
                if strict_positions and ep_begin:
                    stored = c.groups.groups["g"].offsets.get(tuple([tp.rsplit(":", 1)[0], int(tp.rsplit(":", 1)[1])])) \
                        if "g" in c.groups.groups else None
                    out.fail("no_stale_data", "epoch_started_without_committed_offset_lookup",
                             {"member": tag, "epoch": ep, "tp": tp, "first_delivered": offs[0],
                              "stored_committed_now": stored[0] if stored else None, "since": t0, "first_delivery_at": t_first})
            else:
                start = given if given >= 0 else obs.final[tp]["log_start"]
            v = vis.get(tp, [])
            if start is not None and strict_positions:
                if start > obs.final[tp]["end"] or start < obs.final[tp]["log_start"]:
                    start = obs.final[tp]["log_start"]
                exp_first = next((x for x in v if x >= start), None)
                if exp_first != offs[0]:
                    out.fail("no_stale_data", "epoch_does_not_start_at_given_offset",
                             {"member": tag, "epoch": ep, "tp": tp, "first_delivered": offs[0], "given": given, "expected": exp_first})
            for a, b in zip(offs, offs[1:]):
                nxt = next((x for x in v if x > a), None)
                if b != nxt:
                    out.fail("no_stale_data", "gap_or_repeat_inside_epoch", {"member": tag, "epoch": ep, "tp": tp, "after": a, "got": b, "expected": nxt})
                    break
    return info, vis


def evaluate(case, obs):
    out = Outcome()
    c = obs.cluster
    for e in c.harness_errors:
        raise RuntimeError("simulator error: %s" % e)
    if obs.deadlock:
        out.fail("barrier", "deadlock", {"deadlock": obs.deadlock})
        return out
    for e in obs.events:
        if e["kind"] == "crash":
            out.fail("adopts_sent", "consumer_api_raised:" + e["error"], {"member": e["member"], "detail": e["detail"], "cause": e["cause"]})
    g = c.groups.groups.get("g")
    gens = g.generations if g else []
    # ---- distributed_valid
    for gen in gens:
        if gen["assignments"] is None:
            continue
        seen = {}
        for mid, raw in gen["assignments"].items():
            try:
                tps = GS.decode_assignment(raw)
            except Exception as ex:
                out.fail("distributed_valid", "assignment_undecodable", {"generation": gen["generation"], "member": mid, "error": repr(ex)})
                continue
            subs = set(GS.decode_subscription(gen["members"][mid]["metadata"])) if mid in gen["members"] else set()
            for tp in tps:
                if tp in seen:
                    out.fail("distributed_valid", "partition_given_to_two_members",
                             {"generation": gen["generation"], "tp": list(tp), "members": [seen[tp], mid]})
                seen[tp] = mid
                if tp[0] not in subs:
                    out.fail("distributed_valid", "partition_of_unsubscribed_topic",
                             {"generation": gen["generation"], "tp": list(tp), "member": mid, "subscribed": sorted(subs)})
    # ---- adopts_sent: assignment() after the assigned callback == what the SyncGroup reply carried
    sync_by_member = {}
    for a in c.arrivals:
        if a.api == "sync" and a.delivered and a.reply and a.reply.get("error") == 0:
            sync_by_member.setdefault(a.client_id, []).append(a)
    tl = member_timelines(obs)
    assigned_gen = {}       # (member, epoch) -> generation
    for tag, evs in tl.items():
        subs_ev = [e for e in evs if e["kind"] == "subscribe"]
        for e in evs:
            if e["kind"] != "assigned_begin":
                continue
            prior = [a for a in sync_by_member.get(tag, []) if a.t_end <= e["t"] + 1e-9]
            if not prior:
                continue
            a = prior[-1]
            sent = sorted(GS.tpk(*tp) for tp in GS.decode_assignment(a.reply["assignment"]))
            assigned_gen[(tag, e["epoch"])] = a.body["generation"]
            # documented window: a subscription-changing call between the reply and the callback
            if any(a.t_written - 1e-9 <= s["t"] <= e["t"] + 1e-9 for s in subs_ev):
                out.label("adopts_sent_skipped_subscription_change")
                continue
            end = [x for x in evs if x["kind"] == "assigned_end" and x["epoch"] == e["epoch"]]
            if sorted(e["tps"]) != sent:
                out.fail("adopts_sent", "callback_partitions_differ_from_sync_reply", {"member": tag, "sent": sent, "callback": e["tps"],
                                                                                      "generation": a.body["generation"]})
            if end:
                later_sub = any(e["t"] <= s["t"] <= end[0]["t"] for s in subs_ev) or \
                    any(a.t_written - 1e-9 <= t <= end[0]["t"] + 1e-9 for t in c06.metadata_change_times(c, tag, obs.events))
                stopping = any(x["kind"] == "stop_call" and x["t"] <= end[0]["t"] for x in evs)
                if sorted(end[0]["after"]) != sent and not later_sub and not stopping:
                    out.fail("adopts_sent", "assignment_after_callback_differs", {"member": tag, "sent": sent, "assignment()": end[0]["after"]})
    # ---- callbacks alternate: between two assigned callbacks of a member its revoked callback ran to the end
    for tag, evs in tl.items():
        seen_assigned = False
        revoked_since = True
        for e in evs:
            if e["kind"] == "revoked_end":
                revoked_since = True
            elif e["kind"] == "assigned_begin":
                if seen_assigned and not revoked_since:
                    out.fail("barrier", "assigned_again_without_revoke_callback", {"member": tag, "epoch": e["epoch"], "t": e["t"]})
                    break
                seen_assigned = True
                revoked_since = False
    # ---- barrier: all participants' revoked-end before any participant's assigned-begin of that generation
    join_by_member = {}
    for a in c.arrivals:
        if a.api == "join" and a.extra.get("join_result"):
            join_by_member.setdefault(a.client_id, []).append(a)
    for gen in gens:
        gno = gen["generation"]
        parts = {}
        for tag, evs in tl.items():
            js = [a for a in join_by_member.get(tag, []) if a.extra["join_result"][0] == gno]
            if not js:
                continue
            tw = js[0].t_written
            rev_end = [e for e in evs if e["kind"] == "revoked_end" and e["t"] <= tw + 1e-9]
            rev_begin = [e for e in evs if e["kind"] == "revoked_begin" and e["t"] <= tw + 1e-9]
            ab = [e for e in evs if e["kind"] == "assigned_begin" and assigned_gen.get((tag, e["epoch"])) == gno]
            parts[tag] = (rev_begin[-1] if rev_begin else None, rev_end[-1] if rev_end else None, ab[0] if ab else None)
        firsts = [(tag, p[2]) for tag, p in parts.items() if p[2] is not None]
        for tag, (rb, re_, ab) in parts.items():
            if rb is not None and (re_ is None or re_["seq"] < rb["seq"]):
                # revoke callback still running when JoinGroup was written
                out.fail("barrier", "join_group_written_during_revoke_callback", {"member": tag, "generation": gno})
                continue
            for tag2, ab2 in firsts:
                if re_ is not None and ab2["seq"] < re_["seq"]:
                    out.fail("barrier", "assigned_before_all_revoked", {"generation": gno, "revoking": tag, "assigned": tag2,
                                                                        "revoked_end_seq": re_["seq"], "assigned_begin_seq": ab2["seq"]})
    # ---- a member stays alive while its revoke callback runs: with nothing disturbing the coordinator, a callback
    #      longer than the session timeout must be covered by heartbeats, else the member is expired and the next
    #      generation is assigned while it is still revoking
    if not case.get("faults") and not case.get("kills") and not any(e.get("ev") == "move_group_coord" for e in case.get("env", [])):
        sess = case["cfg"]["session_timeout_ms"] / 1000.0
        for tag, evs in tl.items():
            begins = [e for e in evs if e["kind"] == "revoked_begin" and e["tps"]]
            for rb in begins:
                re_ = next((e for e in evs if e["kind"] == "revoked_end" and e["seq"] > rb["seq"]), None)
                if re_ is None or re_["t"] - rb["t"] < sess:
                    continue
                hb = [a for a in c.arrivals if a.client_id == tag and a.api == "heartbeat" and rb["t"] <= a.t_written <= re_["t"]]
                # only a member that was heartbeating right before the callback (still in the group: it did not
                # leave on its own, was not reset) has a session to keep alive
                hbi = case["cfg"]["heartbeat_interval_ms"] / 1000.0
                before = [a for a in c.arrivals if a.client_id == tag and a.api == "heartbeat" and a.reply and
                          a.reply.get("error") in (0, 27) and rb["t"] - 2 * hbi - 0.1 <= a.t_written < rb["t"]]
                left = before and any(a.client_id == tag and a.api == "leave" and a.t_written is not None and
                                      max(x.t_written for x in before) <= a.t_written <= re_["t"] for a in c.arrivals)
                if not hb and before and not left:
                    out.fail("barrier", "no_heartbeat_during_revoke_callback", {"member": tag, "from": rb["t"], "to": re_["t"],
                                                                                "session_timeout": sess})
    # ---- revoked_silent / no_stale_data
    delivery_checks(case, obs, out)
    c06.group_checks(case, obs, out)
    c06.generation_completeness(case, obs, out)
    # ---- non-triviality
    subs = [tuple(m["topics"]) if not isinstance(m["topics"], str) else m["topics"] for m in case["members"]]
    differ = len(set(map(str, subs))) > 1
    sub_change = any(op[0] == "subscribe" for m in case["members"] for op in m.get("ops", []))
    overlap = False
    reb_times = [e["t"] for e in obs.events if e["kind"] == "revoked_begin"]
    for a in c.arrivals:
        if a.api == "fetch" and a.t_end is not None and any(a.t_written <= t <= a.t_end for t in reb_times):
            overlap = True
            break
    out.nontrivial = bool(differ or sub_change or overlap)
    if differ:
        out.label("subscriptions_differ")
    if sub_change:
        out.label("subscription_changed")
    if overlap:
        out.label("rebalance_overlapped_fetch")
    out.label("generations_%d" % min(len(gens), 9), "assignor_" + case["cfg"]["assignors"][0])
    out.info = {"generations": len(gens), "delivered": sum(1 for e in obs.events if e["kind"] == "deliver"),
                "vtime": round(obs.vtime, 1)}
    return out


def execute(case):
    return evaluate(case, GS.run(case))


def commit_refused_cases(shard, nshards):
    """A second member joins while the first one has consumed records and auto-commits; every OffsetCommit of a
    window around the rebalance (including the commit made just before the rejoin) is refused for good
    (OFFSET_METADATA_TOO_LARGE).  The error goes to the application; the revoke callback still has to run before the
    member takes part in the new generation."""
    i = 0
    for k0 in (0, 2, 5, 9):
        for aci in (50, 200):
            for join_at in (0.4, 0.7):
                for code in (12, 28):
                    i += 1
                    if i % nshards != shard:
                        continue
                    cfg = {"assignors": ["range"], "session_timeout_ms": 1000, "heartbeat_interval_ms": 100,
                           "rebalance_timeout_ms": 1500, "retry_backoff_ms": 10, "request_timeout_ms": 2000,
                           "auto_commit": True, "auto_commit_interval_ms": aci, "metadata_max_age_ms": 1000,
                           "max_poll_interval_ms": 300000}
                    m0 = {"topics": ["t0"], "start_at": 0.0, "callback_delay": 0.01, "ops": [["poll", "getmany", 0.1, 2]] * 3}
                    m1 = {"topics": ["t0"], "start_at": join_at, "callback_delay": 0, "ops": []}
                    yield {"cfg": cfg, "cluster": {"nodes": 1, "topics": {"t0": 2}, "join_max": 5, "group_coord": 0, "initial": [3, 2]},
                           "members": [m0, m1], "kills": [],
                           "faults": [{"sel": "offset_commit", "k": k0 + j, "act": "error", "code": code, "delay": 0.05} for j in range(30)],
                           "env": [], "run_for": 3.0, "lat": [0.001], "chunks": [0], "rng_seed": 3}


def campaigns(tier):
    th = tier == "thorough"
    return [Campaign("commit_refused_at_rebalance", "enum", execute=execute, cases=commit_refused_cases, exhaustive=True,
                     setup=GS.setup),
            Campaign("group_sim", "hyp", execute=execute, strategy=lambda: c06.strategy("ownership"),
                     examples=12000 if th else 1280, setup=GS.setup, max_wall=1000 if th else 110, shrink_wall=40)]
