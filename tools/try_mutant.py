#!/venv/bin/python
"""Apply a patch to a scratch copy of the repo's package and run a check against it.

usage: tools/try_mutant.py <PROP> <patch.diff> [--tier quick] [--keep]
Exit code: that of the check (1 = mutant killed).  Evidence/out go to a scratch dir,
so the committed evidence of the real tree is not overwritten.
"""
import os, shutil, subprocess, sys, tempfile

HERE = os.path.dirname(os.path.dirname(os.path.abspath(__file__)))

def main():
    a = sys.argv[1:]
    prop, patch = a[0], os.path.abspath(a[1])
    tier = a[a.index("--tier") + 1] if "--tier" in a else "quick"
    src = os.environ.get("VERIF_REPO", "/repo")
    d = tempfile.mkdtemp(prefix="vmut.", dir="/tmp")
    try:
        shutil.copytree(os.path.join(src, "aiokafka"), os.path.join(d, "aiokafka"),
                        ignore=shutil.ignore_patterns("__pycache__", "*.so", "*.pyc"))
        r = subprocess.run(["patch", "-p1", "-s", "-i", patch], cwd=d)
        if r.returncode != 0:
            print("PATCH FAILED"); return 3
        env = dict(os.environ, VERIF_REPO=d, VERIF_OUT_DIR=os.path.join(d, "out"),
                   VERIF_EVIDENCE_DIR=os.path.join(d, "evidence"))
        r = subprocess.run([os.path.join(HERE, "check"), prop, "--tier", tier], env=env, cwd=HERE,
                           stdout=subprocess.PIPE, stderr=subprocess.STDOUT, text=True)
        out = r.stdout
        keep = [l for l in out.splitlines() if l.startswith(("VIOLATION", "KNOWN", "HARNESS", prop))]
        print("\n".join(keep[:12]) if keep else out[-1500:])
        if "--save" in a and r.returncode == 1:
            # copy first replay into regress/<prop>/
            for l in out.splitlines():
                if l.startswith("VIOLATION"):
                    rp = l.split("replay=")[1].split()[0]
                    if rp.startswith("regress/"):
                        continue            # caught by the regression tier already
                    dst = os.path.join(HERE, "regress", prop)
                    os.makedirs(dst, exist_ok=True)
                    name = "mutant_" + os.path.basename(patch).replace(".diff", "").replace(".patch", "") + ".json"
                    if os.path.basename(patch) == "patch.diff":      # seeded/<ID>/<seed>/patch.diff
                        name = "seed_%s_%s.json" % tuple(os.path.dirname(patch).split(os.sep)[-2:])
                    shutil.copy(os.path.join(HERE, rp) if not os.path.isabs(rp) else rp, os.path.join(dst, name))
                    print("saved", name)
                    break
        print("mutant %s -> rc=%d (%s)" % (os.path.basename(patch), r.returncode,
              {0: "SURVIVED", 1: "KILLED", 2: "HARNESS ERROR"}.get(r.returncode, "?")))
        return r.returncode
    finally:
        shutil.rmtree(d, ignore_errors=True)

sys.exit(main())
