"""Decoder workers for C10: a fork server that decodes untrusted buffers with the
record decoders of the staged tree, and the client that drives it.

Two worker kinds
  "asan": /venv/bin/python with the AddressSanitizer runtime preloaded and the
          stage("asan") tree on sys.path.  Implementations driven per input:
            c    the compiled classes (aiokafka.record.memory_records.MemoryRecords
                 -> _crecords.DefaultRecordBatch / LegacyRecordBatch)
            pyx  _MemoryRecordsPy -> _DefaultRecordBatchPy/_LegacyRecordBatchPy with the
                 compiled varint/crc helpers (what `_...Py` means when the extension is
                 importable); legacy batches are constructed but not iterated here
                 (they use no compiled helper; the "pure" worker covers them).
  "pure": plain interpreter started with AIOKAFKA_NO_EXTENSIONS=1 on stage("plain"):
            py   everything pure Python (incl. varint and crc32c helpers)

Process model: the server imports the code once ("zygote"), then forks a child
that reads framed requests from stdin and answers one JSON line per request.
The zygote only waits; when the child dies (sanitizer-fatal error, signal,
watchdog kill) it reports {"ev":"died"} and forks a fresh child, so a crash costs
milliseconds and is attributed to exactly the request that was in flight
(the child never reads ahead).  stderr of the whole tree goes to one log file;
the child reports the log growth per implementation, so every sanitizer report
is attributed to one (input, implementation).  Hangs: the client watches the
child's CPU time and kills it with SIGUSR1 (faulthandler: Python stack) +
SIGABRT (ASan: C stack / faulthandler in the pure worker).

Nothing in here computes an expected decoding; see props/c10.py for the oracle.
"""
import bisect
import json
import os
import re
import select
import signal
import struct
import subprocess
import sys
import time

VERIF = os.path.dirname(os.path.dirname(os.path.abspath(__file__)))
PYCACHE = os.path.join(VERIF, ".build", "pyc")

MODE_FETCH = 0
MODE_DIRECT_V2 = 1      # DefaultRecordBatch(buf) directly
MODE_DIRECT_V0 = 2      # LegacyRecordBatch(buf, 0)
MODE_DIRECT_V1 = 3      # LegacyRecordBatch(buf, 1)
# the same with the bytes held in a ctypes array of exactly that size: unlike bytes/bytearray (hidden trailing
# NUL) or array.array (over-allocation) nothing readable follows the data, so a one-byte over-read is visible
MODE_XDIRECT = 4
MODES = {"fetch": MODE_FETCH, "direct2": MODE_DIRECT_V2, "direct0": MODE_DIRECT_V0,
         "direct1": MODE_DIRECT_V1, "xdirect2": MODE_XDIRECT + MODE_DIRECT_V2,
         "xdirect0": MODE_XDIRECT + MODE_DIRECT_V0, "xdirect1": MODE_XDIRECT + MODE_DIRECT_V1}

_HDR = struct.Struct(">cIBI")

# =====================================================================
# server side (runs inside the worker interpreter; keep imports light)
# =====================================================================

_BATCH_EXTRA = ("magic", "crc", "attributes", "compression_type", "timestamp_type",
                "last_offset_delta", "first_timestamp", "max_timestamp", "producer_epoch",
                "base_sequence", "length")


def _send(obj):
    os.write(1, (json.dumps(obj, separators=(",", ":")) + "\n").encode())


def _readn(fd, n):
    chunks = []
    got = 0
    while got < n:
        b = os.read(fd, n - got)
        if not b:
            return None
        chunks.append(b)
        got += len(b)
    if len(chunks) == 1:
        return chunks[0]
    return b"".join(chunks)


class _Flood(BaseException):
    """raised by the interval timer of the asanpyx child when the sanitizer has already
    printed a lot for the current input (a Python-level loop around an unchecked read)"""


_CUR = {"o0": 0}


def _on_timer(_sig, _frm):
    if not _CUR.get("armed"):
        return
    grown = os.fstat(2).st_size - _CUR["o0"]
    _CUR["ticks"] = _CUR.get("ticks", 0) + 1
    # a flood of reports, or still spinning 0.3 CPU-seconds after an out-of-bounds report
    # (the input is already a finding; what the loop does with garbage is not judged)
    if grown > 48 * 1024 or (grown > 0 and _CUR["ticks"] >= 6):
        raise _Flood()


def _exc_info(e):
    if isinstance(e, _Flood):
        return {"type": "_Flood", "mod": "harness", "msg": "stopped: sanitizer report flood", "bad": False,
                "is_exc": False, "flood": True}
    frames = []
    tb = e.__traceback__
    while tb is not None:
        co = tb.tb_frame.f_code
        frames.append((co.co_filename, tb.tb_lineno, getattr(co, "co_qualname", co.co_name)))
        tb = tb.tb_next
    site = None
    for fn, ln, name in reversed(frames):
        f = fn.replace("\\", "/")
        if "aiokafka/record" in f:
            site = (os.path.basename(f), ln, name)
            break
    bad = (not isinstance(e, Exception)) or isinstance(e, (SystemError, MemoryError, RecursionError))
    d = {"type": type(e).__name__, "mod": type(e).__module__, "msg": str(e)[:160], "bad": bad,
         "is_exc": isinstance(e, Exception)}
    if site:
        d["file"], d["line"], d["func"] = site
    if isinstance(e, MemoryError):
        d["memerr"] = True
    return d


class _Impl:
    def __init__(self, name, MR, Default, Legacy, control_parse, skip_legacy_iter=False):
        self.name = name
        self.MR = MR
        self.Default = Default
        self.Legacy = Legacy
        self.control_parse = control_parse
        self.skip_legacy_iter = skip_legacy_iter


def _decomp_bound(data):
    """Upper bound of the bytes any record of `data` can live in (reference
    decompressor, never the code under test)."""
    try:
        if VERIF not in sys.path:
            sys.path.append(VERIF)
        from vlib import refrecords as R
        best = 0
        entries, _ = R.split_batches(data)
        for magic, ent in entries:
            try:
                if magic >= 2 and len(ent) >= 61:
                    attrs = struct.unpack_from(">h", ent, 21)[0]
                    best = max(best, len(R.decompress(attrs & 7, ent[61:])))
                elif magic < 2:
                    m, _ = R._dec_legacy_message(ent, 0)
                    if m["attrs"] & 7 and m["value"] is not None:
                        best = max(best, len(R.decompress(m["attrs"] & 7, m["value"])))
            except Exception:
                pass
        return best
    except Exception:
        return 0


def _touch_record(rec, sink):
    hs = rec.headers
    sink.append((rec.offset, rec.timestamp, rec.timestamp_type, rec.key, rec.value,
                 [(k, v) for k, v in hs], rec.checksum))


def _crc_answer(batch):
    try:
        return bool(batch.validate_crc())
    except Exception as e:
        return "exc:" + type(e).__name__


def _lifetime_probe(batch, drop, b):
    """validate_crc() before and after the caller dropped its own references to the source buffer (drop()): the
    batch reads from memory it owns, so the answer cannot change."""
    import gc
    before = _crc_answer(batch)
    drop()
    gc.collect()
    after = _crc_answer(batch)
    if before != after:
        b["lifetime"] = [before, after]


def _drive_batch(impl, batch, b, data, with_crc, sink):
    """What the fetcher does with one batch.  Returns nothing; fills b."""
    if with_crc:
        ok = batch.validate_crc()
        b["crc"] = bool(ok)
        if not ok:
            # the fetcher raises CorruptRecordException("Invalid CRC") here; we go on
            # with the next batch so that every batch's verdict is observed
            return
    pid = batch.producer_id
    seen = [pid]
    if pid is not None:
        seen.append(batch.base_offset)
    ctrl = batch.is_control_batch
    seen.append(bool(ctrl))
    seen.append(bool(batch.is_transactional))
    seen.append(batch.next_offset)
    for name in _BATCH_EXTRA:
        seen.append(getattr(batch, name, None))
    sink.append(tuple(seen))
    if with_crc and ctrl and pid is not None:
        # READ_COMMITTED: _contains_abort_marker() does next(batch) without iter()
        rec = next(batch)
        impl.control_parse(rec.key)
        sink.append(("ctrl", rec.key, rec.value))
        b["ctrl"] = 1
        return
    if impl.skip_legacy_iter and isinstance(batch, impl.Legacy):
        b["skipped"] = 1
        return
    n = 0
    limit = len(data) + 16
    checked = False
    try:
        for rec in batch:
            n += 1
            _touch_record(rec, sink)
            if n > limit:
                if not checked:
                    checked = True
                    limit = 16 + max(len(data), _decomp_bound(data))
                    if n <= limit:
                        continue
                b["noadv"] = n
                break
    finally:
        if not with_crc:
            # an application may ask for the checksum after (partly) iterating: whatever the answer or the
            # exception, it must not read outside the buffers the batch holds by then
            try:
                batch.validate_crc()
            except Exception:
                pass
    b["n"] = n


def _digest(sink):
    import zlib
    return "%08x" % (zlib.crc32(repr(sink).encode("utf-8", "backslashreplace")) & 0xFFFFFFFF)


def _drive_fetch(impl, data, with_crc):
    r = {"nb": 0, "nrec": 0}
    batches = []
    sink = []
    batch = None
    mr = None
    # a buffer object of its own: only `own`, the MemoryRecords and the batches made from it refer to it
    own = bytes(bytearray(data))
    try:
        mr = impl.MR(own)
        mr.size_in_bytes()
        maxb = len(data) // 12 + 2
        while True:
            # two documented ways to walk the buffer: has_next()/next_batch(), or next_batch() until it returns None
            nxt = None
            if with_crc:
                nxt = mr.next_batch()
                if nxt is None:
                    break
            elif not mr.has_next():
                break
            if r["nb"] >= maxb:
                r["noadv_batches"] = r["nb"]
                break
            b = {}
            batches.append(b)
            r["nb"] += 1
            batch = nxt if with_crc else mr.next_batch()
            nxt = None
            b["cls"] = "D" if isinstance(batch, impl.Default) else (
                "L" if isinstance(batch, impl.Legacy) else type(batch).__name__)
            _drive_batch(impl, batch, b, data, with_crc, sink)
            if mr.has_next():
                batch = None
    except BaseException as e:  # noqa: B036 - we classify everything, incl. non-Exception
        r["exc"] = _exc_info(e)
        r["exc"]["batch"] = r["nb"] - 1
        e = None
    if batch is not None and not with_crc:
        # buffer lifetime: the last batch (fully iterated, or abandoned when it raised half way through
        # decompression) outlives the MemoryRecords and the caller's reference to the fetched bytes
        holder = {"mr": mr, "own": own}
        mr = None
        own = None
        lb = batches[-1] if batches else {}
        _lifetime_probe(batch, holder.clear, lb)
    batch = None
    r["batches"] = batches
    r["nrec"] = sum(b.get("n", 0) for b in batches)
    r["dig"] = _digest(sink)
    return r


def _drive_direct(impl, data, mode, with_crc):
    r = {"nb": 0, "nrec": 0}
    b = {}
    sink = []
    try:
        # the batch is built on a buffer object that only this function and the batch refer to
        if mode > MODE_XDIRECT:
            # a buffer whose allocation ends exactly at its last byte (bytes/bytearray keep a spare NUL behind the
            # data, array.array over-allocates): reading even one byte past the end lands in the sanitizer's redzone
            import ctypes
            mode -= MODE_XDIRECT
            own = (ctypes.c_ubyte * len(data)).from_buffer_copy(data) if len(data) > 32 else bytearray(data)
        else:
            own = bytearray(data)
        if mode == MODE_DIRECT_V2:
            batch = impl.Default(own)
            b["cls"] = "D"
        else:
            batch = impl.Legacy(own, 0 if mode == MODE_DIRECT_V0 else 1)
            b["cls"] = "L"
        r["nb"] = 1
        try:
            _drive_batch(impl, batch, b, own, with_crc, sink)
        finally:
            if not with_crc:
                # buffer lifetime: once the caller drops its reference the batch must still own what it reads
                # (whether iteration succeeded or raised half way through decompression)
                holder = {"own": own}
                own = None
                _lifetime_probe(batch, holder.clear, b)
        batch = None
    except BaseException as e:  # noqa: B036
        r["exc"] = _exc_info(e)
        r["exc"]["batch"] = 0
        e = None
    r["batches"] = [b]
    r["nrec"] = b.get("n", 0)
    r["dig"] = _digest(sink)
    return r


def _run_impl(impl, data, mode):
    if mode == MODE_FETCH:
        return {"a": _drive_fetch(impl, data, False), "b": _drive_fetch(impl, data, True)}
    return {"a": _drive_direct(impl, data, mode, False), "b": _drive_direct(impl, data, mode, True)}


def _child(impls, sfd, kind):
    _send({"ev": "child", "pid": os.getpid()})
    if kind == "pure":
        try:
            import resource
            with open("/proc/self/statm") as fh:
                vm = int(fh.read().split()[0]) * os.sysconf("SC_PAGE_SIZE")
            lim = vm + int(os.environ.get("C10_PURE_MEM_MB", "4096")) * (1 << 20)
            resource.setrlimit(resource.RLIMIT_AS, (lim, lim))
        except Exception:
            pass
    if kind == "asanpyx":
        signal.signal(signal.SIGVTALRM, _on_timer)
    n = 0
    while True:
        hdr = _readn(0, _HDR.size)
        if hdr is None:
            os._exit(0)
        _typ, rid, mode, ln = _HDR.unpack(hdr)
        data = _readn(0, ln) if ln else b""
        if data is None:
            os._exit(0)
        recycle = False
        for impl in impls:
            os.pwrite(sfd, ("%d %s" % (rid, impl.name)).ljust(31).encode() + b"\n", 0)
            o0 = os.fstat(2).st_size
            if kind == "asanpyx":
                _CUR["o0"] = o0
                signal.setitimer(signal.ITIMER_VIRTUAL, 0.05, 0.05)
                try:
                    try:
                        _CUR["ticks"] = 0
                        _CUR["armed"] = True
                        r = _run_impl(impl, data, mode)
                    finally:
                        _CUR["armed"] = False
                        signal.setitimer(signal.ITIMER_VIRTUAL, 0, 0)
                except _Flood:
                    # fired outside the drivers' own try blocks (or inside the finally above)
                    _CUR["armed"] = False
                    signal.setitimer(signal.ITIMER_VIRTUAL, 0, 0)
                    r = {"a": {"nb": 0, "nrec": 0, "batches": [], "dig": "", "exc": _exc_info(_Flood())},
                         "b": {"nb": 0, "nrec": 0, "batches": [], "dig": ""}}
            else:
                r = _run_impl(impl, data, mode)
            o1 = os.fstat(2).st_size
            if o1 > o0:
                r["log"] = [o0, o1]
            for p in ("a", "b"):
                if r[p].get("exc", {}).get("memerr"):
                    recycle = True
            _send({"id": rid, "impl": impl.name, "r": r})
        os.pwrite(sfd, ("%d idle" % rid).ljust(31).encode() + b"\n", 0)
        _send({"id": rid, "done": 1})
        n += 1
        if recycle or n >= 50000:
            os._exit(3)


def serve(argv):
    stage_path, kind, errlog, status_path = argv[:4]
    parent_pid = os.getppid()
    here = os.path.dirname(os.path.abspath(__file__))
    sys.path[:] = [p for p in sys.path if os.path.abspath(p or ".") != here]
    fd = os.open(errlog, os.O_WRONLY | os.O_APPEND | os.O_CREAT, 0o644)
    os.dup2(fd, 2)
    os.close(fd)
    sfd = os.open(status_path, os.O_RDWR | os.O_CREAT, 0o644)
    # import only the record package: a stub parent package avoids executing
    # aiokafka/__init__ (the whole client), which takes seconds under ASan.
    import types
    pkg = types.ModuleType("aiokafka")
    pkg.__path__ = [os.path.join(stage_path, "aiokafka")]
    pkg.__file__ = os.path.join(stage_path, "aiokafka", "__init__.py")
    sys.modules["aiokafka"] = pkg
    sys.path.insert(0, stage_path)
    import faulthandler

    import aiokafka.record.default_records as drm
    import aiokafka.record.legacy_records as lrm
    import aiokafka.record.memory_records as mrm
    import aiokafka.record.util as rutil
    from aiokafka.record.control_record import ControlRecord
    for m in (drm, lrm, mrm, rutil):
        if not os.path.abspath(m.__file__).startswith(os.path.abspath(stage_path)):
            _send({"ev": "fatal", "error": "module %s imported from %s" % (m.__name__, m.__file__)})
            os._exit(4)
    impls = []
    info = {}
    if kind in ("asan", "asanpyx"):
        from aiokafka.record import _crecords as cr
        if mrm.MemoryRecords is not cr.MemoryRecords:
            _send({"ev": "fatal", "error": "compiled MemoryRecords not active in asan worker"})
            os._exit(4)
        if rutil.decode_varint is not cr.decode_varint_cython:
            _send({"ev": "fatal", "error": "compiled varint helper not active"})
            os._exit(4)
        if kind == "asan":
            impls.append(_Impl("c", mrm.MemoryRecords, cr.DefaultRecordBatch, cr.LegacyRecordBatch,
                               ControlRecord.parse))
            # Decompressed payloads are handed to the compiled decoders in allocations that end exactly at their last
            # byte (and, when empty, start at the first byte of one): an access one byte past - or any byte before -
            # the decompressed data lands in a redzone instead of the spare NUL / object header of a bytes object.
            import ctypes

            def _exact_out(fn):
                def w(data, *a, **k):
                    out = fn(data, *a, **k)
                    try:
                        raw = bytes(out)
                    except Exception:
                        return out
                    n = len(raw)
                    size = max(n, 64)
                    arr = (ctypes.c_ubyte * size)()
                    mv = memoryview(arr).cast("B")
                    if n == 0:
                        return mv[0:0]
                    mv[size - n:] = raw
                    return mv[size - n:]
                return w
            import importlib
            for mname in ("legacy_records", "default_records"):
                mod = importlib.import_module("aiokafka.record._crecords." + mname)
                for fname in ("gzip_decode", "snappy_decode", "lz4_decode", "zstd_decode"):
                    if hasattr(mod, fname):
                        setattr(mod, fname, _exact_out(getattr(mod, fname)))
                        info["exact_" + mname] = info.get("exact_" + mname, 0) + 1
        else:
            # `_MemoryRecordsPy` builds whatever the module globals name; point them at
            # the `_...Py` classes (this is exactly the selection NO_EXTENSIONS makes),
            # leaving the compiled varint/crc helpers in aiokafka.record.util active.
            mrm.DefaultRecordBatch = drm._DefaultRecordBatchPy
            mrm.LegacyRecordBatch = lrm._LegacyRecordBatchPy
            impls.append(_Impl("pyx", mrm._MemoryRecordsPy, drm._DefaultRecordBatchPy,
                               lrm._LegacyRecordBatchPy, ControlRecord.parse, skip_legacy_iter=True))
        info["so"] = os.path.dirname(cr.__file__)
    else:
        ok = (mrm.MemoryRecords is mrm._MemoryRecordsPy
              and drm.DefaultRecordBatch is drm._DefaultRecordBatchPy
              and lrm.LegacyRecordBatch is lrm._LegacyRecordBatchPy
              and rutil.decode_varint is rutil.decode_varint_py
              and rutil.calc_crc32c is rutil.calc_crc32c_py)
        if not ok:
            _send({"ev": "fatal", "error": "AIOKAFKA_NO_EXTENSIONS not effective in pure worker"})
            os._exit(4)
        impls.append(_Impl("py", mrm.MemoryRecords, drm.DefaultRecordBatch, lrm.LegacyRecordBatch,
                           ControlRecord.parse))
        faulthandler.enable(file=2, all_threads=False)
    faulthandler.register(signal.SIGUSR1, file=2, all_threads=False, chain=False)
    # warm the codecs (first use imports cramjam lazily in some versions)
    import aiokafka.codec as codec
    for f in ("has_gzip", "has_snappy", "has_lz4", "has_zstd"):
        try:
            getattr(codec, f)()
        except Exception:
            pass
    import gc
    gc.collect()
    gc.freeze()
    _send({"ev": "ready", "impls": [i.name for i in impls], "info": info})
    while True:
        pid = os.fork()
        if pid == 0:
            try:
                _child(impls, sfd, kind)
            finally:
                os._exit(5)
        _, status = os.waitpid(pid, 0)
        ev = {"ev": "died", "pid": pid}
        if os.WIFSIGNALED(status):
            ev["signal"] = os.WTERMSIG(status)
        else:
            ev["code"] = os.WEXITSTATUS(status)
        _send(ev)
        if ev.get("code") == 0:
            # parent went away / closed stdin: remove our scratch files
            for f in (errlog, status_path):
                try:
                    os.unlink(f)
                except OSError:
                    pass
            import shutil
            shutil.rmtree(os.path.join(os.path.dirname(errlog), "so.%s.%d" % (kind, parent_pid)),
                          ignore_errors=True)
            try:
                os.rmdir(os.path.dirname(errlog))
            except OSError:
                pass
            os._exit(0)
        if ev.get("code") in (4, 5):
            os._exit(1)


# =====================================================================
# client side
# =====================================================================

class WorkerError(Exception):
    """The worker infrastructure failed (not a finding)."""


class Reply:
    __slots__ = ("res", "died", "timeout", "phase", "log", "logs", "cpu", "killed_for", "partial")

    def __init__(self):
        self.res = None        # {impl: {"a":..., "b":...}} when the child answered
        self.died = None       # died event when the child died during this request
        self.timeout = False   # watchdog kill (CPU budget)
        self.killed_for = None  # "cpu" | "rss" | "wall"
        self.phase = None      # implementation running when the child died
        self.log = ""          # log text produced during the request (died / timeout case)
        self.logs = {}         # impl -> log text (answered implementations)
        self.partial = {}      # impl -> result of the implementations that finished
        self.cpu = 0.0


def _symbolizer_path():
    for n in ("llvm-symbolizer-14", "llvm-symbolizer"):
        for d in os.environ.get("PATH", "").split(os.pathsep) + ["/usr/bin"]:
            p = os.path.join(d, n)
            if os.path.exists(p):
                return p
    return None


class Worker:
    def __init__(self, kind, tmpdir):
        assert kind in ("asan", "asanpyx", "pure")
        self.kind = kind
        self.tmpdir = tmpdir
        self.proc = None
        self.child_pid = None
        self.rid = 0
        self.buf = b""
        self.errlog = os.path.join(tmpdir, "%s.%d.err" % (kind, os.getpid()))
        self.status = os.path.join(tmpdir, "%s.%d.status" % (kind, os.getpid()))
        self.log_off = 0
        self.restarts = 0
        self.deaths = 0
        self.stage_path = None
        self.so_copies = {}
        self._ready_for = None

    # ---- lifecycle
    def start(self, wait=True):
        from . import stage
        os.makedirs(self.tmpdir, exist_ok=True)
        os.makedirs(PYCACHE, exist_ok=True)
        if self.kind in ("asan", "asanpyx"):
            self.stage_path = stage.stage("asan")
            env = stage.asan_env()
            sym = _symbolizer_path()
            # recover mode: all reports of one input are seen and hangs behind an out-of-bounds
            # read are reached.  In "asanpyx" Python-level loops around the unchecked varint
            # helper would print reports forever; its child stops an input after 48 KiB of
            # sanitizer output (interval timer, see _on_timer).
            env["ASAN_OPTIONS"] = (
                "detect_leaks=0:halt_on_error=0:abort_on_error=0:exitcode=77:" +
                "allocator_may_return_null=1:symbolize=0:suppress_equal_pcs=0:"
                "print_legend=0:malloc_context_size=0:handle_abort=1:handle_segv=1:"
                "handle_sigbus=1:handle_sigfpe=1:handle_sigill=1:print_summary=1:"
                "max_allocation_size_mb=2048:detect_odr_violation=0:"
                "quarantine_size_mb=4:thread_local_quarantine_size_kb=256:"
                # freed memory is overwritten: a batch that keeps reading a buffer it no longer owns through an
                # uninstrumented routine (zlib's crc32) at least answers differently afterwards (_lifetime_probe)
                "max_free_fill_size=1048576:free_fill_byte=189")
            if sym:
                env["ASAN_SYMBOLIZER_PATH"] = sym
            env.pop("AIOKAFKA_NO_EXTENSIONS", None)
        else:
            self.stage_path = stage.stage("plain")
            env = dict(os.environ)
            env["AIOKAFKA_NO_EXTENSIONS"] = "1"
            env.pop("LD_PRELOAD", None)
        env.pop("PYTHONDONTWRITEBYTECODE", None)
        env.pop("PYTHONPATH", None)
        env["PYTHONPYCACHEPREFIX"] = PYCACHE
        env["PYTHONHASHSEED"] = "0"
        for p in (self.errlog, self.status):
            with open(p, "wb"):
                pass
        self.log_off = 0
        self.proc = subprocess.Popen(
            [sys.executable, os.path.abspath(__file__), "serve", self.stage_path,
             self.kind, self.errlog, self.status],
            stdin=subprocess.PIPE, stdout=subprocess.PIPE, stderr=subprocess.DEVNULL,
            env=env, cwd=self.tmpdir, close_fds=True)
        self.buf = b""
        self.child_pid = None
        if not wait:
            return
        self.wait_ready()

    def wait_ready(self):
        if getattr(self, "impls", None) and self.restarts and self._ready_for is self.proc:
            return
        ev = self._read_event(180.0)
        if ev is None or ev.get("ev") != "ready":
            tail = self._read_log(0)[-2000:]
            self.stop()
            raise WorkerError("worker %s did not start: %r\n%s" % (self.kind, ev, tail))
        self.info = ev.get("info", {})
        self.impls = ev.get("impls", [])
        self.restarts += 1
        self._ready_for = self.proc
        # private copies of the extension modules for symbolisation (other runs may
        # prune the shared stage directory while we are still working)
        sod = self.info.get("so")
        if sod and not self.so_copies:
            import shutil
            dst = os.path.join(self.tmpdir, "so.%s.%d" % (self.kind, os.getpid()))
            try:
                os.makedirs(dst, exist_ok=True)
                for f in os.listdir(sod):
                    if f.endswith(".so"):
                        shutil.copy2(os.path.join(sod, f), os.path.join(dst, f))
                        self.so_copies[f] = os.path.join(dst, f)
                self.so_dir = dst
            except OSError:
                self.so_copies = {}

    def stop(self):
        p, self.proc = self.proc, None
        if p is None:
            return
        try:
            p.stdin.close()
        except Exception:
            pass
        try:
            p.wait(timeout=2)
        except Exception:
            try:
                if self.child_pid:
                    os.kill(self.child_pid, signal.SIGKILL)
            except OSError:
                pass
            try:
                p.kill()
                p.wait(timeout=5)
            except Exception:
                pass
        try:
            p.stdout.close()
        except Exception:
            pass
        for f in (self.errlog, self.status):
            try:
                os.unlink(f)
            except OSError:
                pass
        if self.so_copies:
            import shutil
            shutil.rmtree(getattr(self, "so_dir", ""), ignore_errors=True)
            self.so_copies = {}

    def module_path(self, module):
        """path to hand to the symbolizer for a module named in a sanitizer stack"""
        return self.so_copies.get(os.path.basename(module), module)

    # ---- io
    def _read_event(self, timeout):
        """Next JSON line from the server or None on timeout / EOF."""
        end = time.time() + timeout
        fd = self.proc.stdout.fileno()
        while True:
            i = self.buf.find(b"\n")
            if i >= 0:
                line, self.buf = self.buf[:i], self.buf[i + 1:]
                try:
                    return json.loads(line)
                except ValueError:
                    raise WorkerError("garbled worker output: %r" % line[:200])
            left = end - time.time()
            if left <= 0:
                return None
            r, _, _ = select.select([fd], [], [], min(left, 0.25))
            if r:
                b = os.read(fd, 1 << 16)
                if not b:
                    return {"ev": "eof"}
                self.buf += b

    def _read_log(self, off, end=None, cap=1 << 20):
        try:
            with open(self.errlog, "rb") as fh:
                fh.seek(off)
                n = cap if end is None else min(cap, max(0, end - off))
                return fh.read(n).decode("utf-8", "replace")
        except OSError:
            return ""

    def _log_size(self):
        try:
            return os.stat(self.errlog).st_size
        except OSError:
            return 0

    def _cpu(self, pid):
        try:
            with open("/proc/%d/stat" % pid, "rb") as fh:
                s = fh.read().decode("ascii", "replace")
            f = s[s.rindex(")") + 2:].split()
            return (int(f[11]) + int(f[12])) / float(os.sysconf("SC_CLK_TCK")), int(f[21]) * 4096
        except (OSError, ValueError, IndexError):
            return None, None

    def _phase(self):
        """(request id, implementation name | "idle") last written by the child"""
        try:
            with open(self.status, "rb") as fh:
                s = fh.read(64).decode("ascii", "replace").split()
            return (int(s[0]), s[1]) if len(s) >= 2 else (None, None)
        except (OSError, ValueError):
            return (None, None)

    def _await_child(self):
        while self.child_pid is None:
            ev = self._read_event(60.0)
            if ev is None or ev.get("ev") in ("eof", "fatal"):
                raise WorkerError("worker %s lost: %r\n%s" % (self.kind, ev, self._read_log(
                    max(0, self._log_size() - 2000))))
            if ev.get("ev") == "child":
                self.child_pid = ev["pid"]
            elif ev.get("ev") == "died":
                continue

    # ---- one request
    def run(self, data, mode, budget=3.0, rss_mb=3072, flood_bytes=768 * 1024):
        if self.proc is None or self.proc.poll() is not None:
            if self.proc is not None:
                self.stop()
            self.start()
        elif self._ready_for is not self.proc:
            self.wait_ready()
        self._await_child()
        self.rid = (self.rid + 1) & 0x7FFFFFFF
        rid = self.rid
        start_off = self._log_size()
        cpu0, _ = self._cpu(self.child_pid)
        cpu0 = cpu0 or 0.0
        try:
            self.proc.stdin.write(_HDR.pack(b"R", rid, mode, len(data)) + data)
            self.proc.stdin.flush()
        except (BrokenPipeError, OSError) as e:
            raise WorkerError("worker %s pipe broken: %r" % (self.kind, e))
        rep = Reply()
        t0 = time.time()
        killed = False
        done = False
        wall_cap = max(30.0, budget * 8)
        while True:
            ev = self._read_event(0.2)
            if ev is None:
                # watchdog
                pid = self.child_pid
                cpu, rss = self._cpu(pid) if pid else (None, None)
                if cpu is not None:
                    rep.cpu = cpu - cpu0
                why = None
                if cpu is not None and cpu - cpu0 > budget:
                    why = "cpu"
                elif rss is not None and rss > rss_mb * (1 << 20):
                    why = "rss"
                elif time.time() - t0 > wall_cap:
                    why = "wall"
                elif self._log_size() - start_off > flood_bytes:
                    why = "flood"
                if why and not killed and pid:
                    srid, sphase = self._phase()
                    if srid != rid or sphase == "idle":
                        if why == "wall":
                            raise WorkerError("worker %s: request %d never started (status %r %r)" % (
                                self.kind, rid, srid, sphase))
                        continue
                    killed = True
                    rep.killed_for = why
                    rep.phase = sphase
                    try:
                        os.kill(pid, signal.SIGUSR1)
                        time.sleep(0.1)
                        os.kill(pid, signal.SIGABRT)
                    except OSError:
                        pass
                    t_kill = time.time()
                elif killed and pid and time.time() - t_kill > 10.0:
                    try:
                        os.kill(pid, signal.SIGKILL)
                    except OSError:
                        pass
                continue
            k = ev.get("ev")
            if k == "child":
                self.child_pid = ev["pid"]
                cpu0 = 0.0
                continue
            if k in ("eof", "fatal"):
                raise WorkerError("worker %s lost: %r" % (self.kind, ev))
            if k == "died":
                self.child_pid = None
                if ev.get("code") == 3:
                    continue          # voluntary recycle after a reply
                if done:
                    # our watchdog signal arrived after the child had answered: the
                    # request completed (slowly); swallow this death
                    rep.res = rep.partial
                    rep.killed_for = "late:" + str(rep.killed_for)
                    self._maybe_rotate()
                    return rep
                srid, sphase = self._phase()
                if not killed and (srid != rid or sphase == "idle"):
                    # died outside any request (e.g. while idle): not attributable to this
                    # input; the request is still in the pipe for the next child
                    self.idle_deaths = getattr(self, "idle_deaths", 0) + 1
                    continue
                self.deaths += 1
                rep.died = ev
                rep.timeout = killed
                if rep.phase is None:
                    rep.phase = sphase
                off = start_off
                for r in rep.partial.values():
                    if r.get("log"):
                        off = max(off, r["log"][1])
                size = self._log_size()
                if size - off > (768 << 10):
                    # keep the first reports and the final (deadly signal) report
                    rep.log = self._read_log(off, off + (512 << 10)) + "\n[...]\n" + \
                        self._read_log(size - (256 << 10))
                else:
                    rep.log = self._read_log(off)
                self._maybe_rotate()
                return rep
            if ev.get("id") == rid:
                if "impl" in ev:
                    rep.partial[ev["impl"]] = ev["r"]
                    lg = ev["r"].get("log")
                    if lg:
                        rep.logs[ev["impl"]] = self._read_log(lg[0], lg[1])
                    continue
                if killed:
                    done = True       # wait for the death our signal will cause
                    continue
                rep.res = rep.partial
                self._maybe_rotate()
                return rep
            # stale reply of an earlier request: ignore

    def _maybe_rotate(self):
        # keep the log file small (O_APPEND writers continue at the new end)
        if self._log_size() > (32 << 20):
            try:
                os.truncate(self.errlog, 0)
            except OSError:
                pass


# ---------------------------------------------------------------------
# ASan report parsing / symbolisation / mapping to .pyx lines
# ---------------------------------------------------------------------

_RE_ERR = re.compile(r"==\d+==\s*ERROR: AddressSanitizer:? ([A-Za-z0-9_-]+)(.*)")
_RE_FRAME = re.compile(r"^\s+#(\d+) 0x[0-9a-f]+\s+(?:in (\S+) )?\((.+?)\+0x([0-9a-f]+)\)")
_RE_ACCESS = re.compile(r"^(READ|WRITE) of size (\d+)")


def parse_asan(text, max_reports=40):
    """-> list of {"kind","access","frames":[(module, offset_int)], "where": str}"""
    reps = []
    cur = None
    in_stack = False
    for line in text.splitlines():
        m = _RE_ERR.search(line)
        if m:
            if len(reps) >= max_reports:
                break
            cur = {"kind": m.group(1), "access": "", "frames": [], "where": "", "head": line.strip()[:200]}
            reps.append(cur)
            in_stack = True
            continue
        if cur is None:
            continue
        m = _RE_ACCESS.match(line)
        if m and not cur["access"]:
            cur["access"] = "%s %s" % (m.group(1), m.group(2))
            in_stack = True
            continue
        m = _RE_FRAME.match(line)
        if m:
            if in_stack:
                cur["frames"].append((m.group(3), int(m.group(4), 16)))
            continue
        if " is located " in line and not cur["where"]:
            cur["where"] = re.sub(r"0x[0-9a-f]+", "ADDR", line.strip())[:200]
        if cur["frames"] and not line.strip():
            in_stack = False
    return reps


def count_asan(text):
    return len(re.findall(r"ERROR: AddressSanitizer", text))


_RE_FH_FRAME = re.compile(r'^\s+File "(.+?)", line (\d+) in (.+)$')


def parse_faulthandler(text):
    """Python stacks dumped by faulthandler: list of (file, line, func), innermost first,
    of the LAST dump in text."""
    frames = []
    cur = None
    for line in text.splitlines():
        if line.startswith(("Stack (most recent call first)", "Current thread", "Thread 0x")):
            cur = []
            frames = cur
            continue
        m = _RE_FH_FRAME.match(line)
        if m and cur is not None:
            cur.append((m.group(1), int(m.group(2)), m.group(3)))
    return frames


class Symbolizer:
    def __init__(self):
        self.proc = None
        self.cache = {}

    def _start(self):
        p = _symbolizer_path()
        if not p:
            return False
        self.proc = subprocess.Popen([p, "--inlines"],
                                     stdin=subprocess.PIPE, stdout=subprocess.PIPE,
                                     stderr=subprocess.DEVNULL, text=True, bufsize=1)
        return True

    def lookup(self, module, off):
        """-> list of (function, file, line) innermost inlined frame first."""
        key = (module, off)
        if key in self.cache:
            return self.cache[key]
        res = []
        try:
            if self.proc is None and not self._start():
                return res
            self.proc.stdin.write('"%s" 0x%x\n' % (module, off))
            self.proc.stdin.flush()
            lines = []
            while True:
                l = self.proc.stdout.readline()
                if not l or not l.strip():
                    break
                lines.append(l.rstrip("\n"))
            for i in range(0, len(lines) - 1, 2):
                fn = lines[i]
                loc = lines[i + 1]
                parts = loc.rsplit(":", 2)
                try:
                    res.append((fn, parts[0], int(parts[1])))
                except (ValueError, IndexError):
                    res.append((fn, loc, 0))
        except Exception:
            res = []
        self.cache[key] = res
        return res

    def close(self):
        if self.proc is not None:
            try:
                self.proc.stdin.close()
                self.proc.kill()
                self.proc.wait(timeout=2)
            except Exception:
                pass
            self.proc = None


_RE_CY_MARK = re.compile(r'^\s*/\* "((?:[^"]+/)?([^"/]+\.(?:pyx|pxd|pxi)))":(\d+)\s*$')


class LineMap:
    """Generated-C line -> (.pyx file, line), by re-running Cython on the sources of
    the tree under test (the stage build deletes its generated C)."""

    def __init__(self):
        self.maps = {}
        self.sources = {}
        self.ok = False
        try:
            self._build()
            self.ok = True
        except Exception as e:  # mapping is a refinement only
            self.err = repr(e)

    def _build(self):
        import hashlib
        import shutil
        from . import stage
        root = stage.repo_root()
        d = os.path.join(root, stage.EXT_DIR)
        names = sorted(f for f in os.listdir(d) if f.endswith((".pyx", ".pxd", ".pxi")))
        h = hashlib.sha1((sys.version + stage._BUILD_SCRIPT).encode())
        for n in names:
            with open(os.path.join(d, n), "rb") as fh:
                b = fh.read()
            h.update(n.encode())
            h.update(hashlib.sha1(b).digest())
            self.sources[n] = b.decode("utf-8", "replace").splitlines()
        cache = os.path.join(stage.BUILD, "c10map", h.hexdigest()[:16])
        mp = os.path.join(cache, "map.json")
        if not os.path.exists(mp):
            work = cache + ".work.%d" % os.getpid()
            shutil.rmtree(work, ignore_errors=True)
            os.makedirs(os.path.join(work, stage.EXT_DIR))
            for n in os.listdir(d):
                if n.endswith((".pyx", ".pxd", ".pxi", ".h")) or n == "crc32c.c":
                    shutil.copy2(os.path.join(d, n), os.path.join(work, stage.EXT_DIR, n))
            for sub in ("aiokafka", os.path.join("aiokafka", "record"), stage.EXT_DIR):
                open(os.path.join(work, sub, "__init__.py"), "a").close()
            # the generated C embeds the Extension settings (line counts!), so reuse the
            # stage's own build script up to (excluding) the compile step
            code = stage._BUILD_SCRIPT.split("setup(name=")[0] + \
                "cythonize(exts, build_dir='cy', language_level=3, quiet=True)\n"
            env = dict(os.environ)
            env.pop("PYTHONPATH", None)
            p = subprocess.run([sys.executable, "-c", code, "asan", "lib"], cwd=work, env=env,
                               stdout=subprocess.PIPE, stderr=subprocess.STDOUT, text=True)
            if p.returncode != 0:
                shutil.rmtree(work, ignore_errors=True)
                raise RuntimeError("cython failed: " + p.stdout[-500:])
            maps = {}
            cdir = os.path.join(work, "cy", stage.EXT_DIR)
            for n in os.listdir(cdir):
                if not n.endswith(".c"):
                    continue
                marks = []
                with open(os.path.join(cdir, n), encoding="utf-8", errors="replace") as fh:
                    for i, line in enumerate(fh, 1):
                        if '/* "' in line:
                            m = _RE_CY_MARK.match(line)
                            if m:
                                marks.append([i, m.group(2), int(m.group(3))])
                maps[n] = marks
            os.makedirs(cache + ".tmp.%d" % os.getpid(), exist_ok=True)
            tmp = cache + ".tmp.%d" % os.getpid()
            with open(os.path.join(tmp, "map.json"), "w") as fh:
                json.dump(maps, fh)
            shutil.rmtree(work, ignore_errors=True)
            try:
                os.rename(tmp, cache)
            except OSError:
                shutil.rmtree(tmp, ignore_errors=True)
        with open(mp) as fh:
            self.maps = json.load(fh)
        self.keys = {n: [m[0] for m in marks] for n, marks in self.maps.items()}

    def to_pyx(self, cfile, cline):
        n = os.path.basename(cfile)
        marks = self.maps.get(n)
        if not marks:
            return None
        i = bisect.bisect_right(self.keys[n], cline) - 1
        if i < 0:
            return None
        return marks[i][1], marks[i][2]


_RE_DEF = re.compile(r"^\s*(?:async\s+)?(?:def|cdef|cpdef)\b(?!\s*:)(?!\s+(?:class|extern|struct|union|enum)\b).*?"
                     r"([A-Za-z_][A-Za-z0-9_]*)\s*\(")
_RE_CLASS = re.compile(r"^\s*(?:cdef\s+)?class\s+([A-Za-z_][A-Za-z0-9_]*)")


def source_context(lines, lineno):
    """(function name or None, [enclosing loop headers outermost first]) of a 1-based line."""
    if not lines or lineno < 1 or lineno > len(lines):
        return None, []
    def indent(s):
        return len(s) - len(s.lstrip())
    i = lineno - 1
    while i >= 0 and not lines[i].strip():
        i -= 1
    if i < 0:
        return None, []
    cur = indent(lines[i])
    loops = []
    func = None
    j = i - 1
    # a statement that is itself a loop header counts as inside that loop
    st0 = lines[i].strip()
    if st0.startswith(("while ", "for ", "async for ")):
        loops.append(re.sub(r"\s+", " ", st0.rstrip(":")))
    while j >= 0:
        s = lines[j]
        st = s.strip()
        if not st or st.startswith("#"):
            j -= 1
            continue
        ind = indent(s)
        if ind < cur:
            cur = ind
            if st.startswith(("while ", "for ", "async for ")):
                loops.append(re.sub(r"\s+", " ", st.rstrip(":")))
            else:
                m = _RE_DEF.match(s)
                if m and (st.endswith(":") or "(" in st):
                    func = m.group(1)
                    break
                if _RE_CLASS.match(s):
                    break
        j -= 1
    loops.reverse()
    return func, loops


def cy_func_name(sym, classes=None):
    """`__pyx_f_8aiokafka_6record_9_crecords_15default_records_18DefaultRecordBatch__read_msg`
    -> ("default_records", "DefaultRecordBatch._read_msg")"""
    m = re.match(r"^__pyx_(?:f|pf|pw|gb|tp_new|tp_dealloc|fuse_\d+)?_?(.*)$", sym)
    if not sym.startswith("__pyx_") or not m:
        return None, sym
    rest = m.group(1)
    parts = []
    while True:
        mm = re.match(r"^(\d+)", rest)
        if not mm:
            break
        n = int(mm.group(1))
        body = rest[len(mm.group(1)):]
        if n <= 0 or len(body) < n:
            break
        seg = body[:n]
        nxt = body[n:]
        if nxt and not nxt.startswith("_"):
            break
        if not re.match(r"^[A-Za-z_][A-Za-z0-9_]*$", seg):
            break
        if classes is not None and "_crecords" in parts and parts[-1] != "_crecords" \
                and seg not in classes:
            break           # "8validate_crc": an ordinal + name, not a length-prefixed class
        parts.append(seg)
        rest = nxt[1:] if nxt else ""
        if not nxt:
            break
    fn = rest
    # def-method wrappers carry an ordinal: "7__next__", "3validate_crc"
    mm = re.match(r"^(\d+)(.+)$", fn)
    if mm:
        fn = mm.group(2)
    mod = None
    cls = []
    if "_crecords" in parts:
        k = parts.index("_crecords")
        if k + 1 < len(parts):
            mod = parts[k + 1]
            cls = parts[k + 2:]
    elif parts:
        mod = parts[0]
        cls = parts[1:]
    if not fn and cls:
        fn = cls.pop()
    name = ".".join(cls + [fn]) if fn else ".".join(cls)
    return mod, name


if __name__ == "__main__":
    if len(sys.argv) > 1 and sys.argv[1] == "serve":
        serve(sys.argv[2:])
