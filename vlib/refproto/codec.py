"""Independent reference wire codec for the Kafka protocol (hand-written tables).

Schema text DSL:  "name:type name:type ..." where type is
  i8 i16 i32 i64 u32 bool        fixed-width big-endian
  str nstr                       int16 length + utf-8 (nstr: -1 = null)
  bytes nbytes                   int32 length (nbytes: -1 = null)
  uvarint                        unsigned varint
  cstr cnstr cbytes cnbytes      compact (uvarint length+1; 0 = null)
  tags                           tagged fields: uvarint count, {tag uvarint, size uvarint, data}
  [ ... ]   ?[ ... ]   c[ ... ]  ?c[ ... ]  array of struct / nullable / compact / nullable compact
  [type]    (one primitive)      array of primitive
Values: dict per struct, list per array.
"""
import struct as _s


class RefProtoError(Exception):
    pass


_FIXED = {"i8": ">b", "i16": ">h", "i32": ">i", "i64": ">q", "u32": ">I", "bool": ">?"}


def parse(text):
    toks = text.replace("[", " [ ").replace("]", " ] ").split()
    # re-attach ?[ and c[ prefixes
    fixed = []
    i = 0
    while i < len(toks):
        t = toks[i]
        if t.endswith(":?") or t.endswith(":c") or t.endswith(":?c"):
            # "name:?" "[" -> "name:" "?["
            name, pre = t.split(":")
            fixed.append(name + ":")
            fixed.append(pre + "[")
            i += 2
            continue
        fixed.append(t)
        i += 1
    toks = fixed
    pos = [0]

    def fields(until_close):
        out = []
        while pos[0] < len(toks):
            t = toks[pos[0]]
            if t == "]":
                if not until_close:
                    raise ValueError("unbalanced ] in %r" % text)
                pos[0] += 1
                return out
            if t.endswith(":"):
                name = t[:-1]
                pos[0] += 1
                opener = toks[pos[0]]
                assert opener.endswith("["), (text, opener)
                pos[0] += 1
                # primitive array?  "[" prim "]"
                if pos[0] + 1 < len(toks) and ":" not in toks[pos[0]] and toks[pos[0] + 1] == "]":
                    elem = toks[pos[0]]
                    pos[0] += 2
                else:
                    elem = fields(True)
                out.append((name, ("arr", opener[:-1], elem)))
            else:
                name, typ = t.split(":")
                out.append((name, typ))
                pos[0] += 1
        if until_close:
            raise ValueError("missing ] in %r" % text)
        return out

    return fields(False)


def enc_uvarint(n):
    if n < 0:
        raise RefProtoError("negative uvarint")
    out = bytearray()
    while True:
        b = n & 0x7F
        n >>= 7
        if n:
            out.append(b | 0x80)
        else:
            out.append(b)
            return bytes(out)


def dec_uvarint(buf, pos):
    shift = 0
    res = 0
    while True:
        if pos >= len(buf):
            raise RefProtoError("uvarint past end")
        b = buf[pos]
        pos += 1
        res |= (b & 0x7F) << shift
        if not b & 0x80:
            return res, pos
        shift += 7
        if shift > 63:
            raise RefProtoError("uvarint too long")


def _enc_prim(t, v, out):
    if t in _FIXED:
        try:
            out += _s.pack(_FIXED[t], v)
        except _s.error as e:
            raise RefProtoError("%s: %s" % (t, e))
    elif t in ("str", "nstr"):
        if v is None:
            if t == "str":
                raise RefProtoError("null for non-nullable string")
            out += _s.pack(">h", -1)
        else:
            b = v.encode("utf-8")
            out += _s.pack(">h", len(b)) + b
    elif t in ("bytes", "nbytes"):
        if v is None:
            if t == "bytes":
                raise RefProtoError("null for non-nullable bytes")
            out += _s.pack(">i", -1)
        else:
            out += _s.pack(">i", len(v)) + bytes(v)
    elif t == "uvarint":
        out += enc_uvarint(v)
    elif t in ("cstr", "cnstr"):
        if v is None:
            if t == "cstr":
                raise RefProtoError("null for non-nullable compact string")
            out += b"\x00"
        else:
            b = v.encode("utf-8")
            out += enc_uvarint(len(b) + 1) + b
    elif t in ("cbytes", "cnbytes"):
        if v is None:
            if t == "cbytes":
                raise RefProtoError("null for non-nullable compact bytes")
            out += b"\x00"
        else:
            out += enc_uvarint(len(v) + 1) + bytes(v)
    elif t == "tags":
        v = v or {}
        out += enc_uvarint(len(v))
        for tag in sorted(v):
            out += enc_uvarint(int(tag)) + enc_uvarint(len(v[tag])) + bytes(v[tag])
    else:
        raise RefProtoError("unknown type %r" % t)


def _need(buf, pos, n):
    if n < 0 or pos + n > len(buf):
        raise RefProtoError("field runs past end (need %d at %d of %d)" % (n, pos, len(buf)))


def _dec_prim(t, buf, pos):
    if t in _FIXED:
        st = _s.Struct(_FIXED[t])
        _need(buf, pos, st.size)
        return st.unpack_from(buf, pos)[0], pos + st.size
    if t in ("str", "nstr"):
        _need(buf, pos, 2)
        (n,) = _s.unpack_from(">h", buf, pos)
        pos += 2
        if n < 0:
            if n != -1 or t == "str":
                raise RefProtoError("bad string length %d" % n)
            return None, pos
        _need(buf, pos, n)
        return bytes(buf[pos:pos + n]).decode("utf-8"), pos + n
    if t in ("bytes", "nbytes"):
        _need(buf, pos, 4)
        (n,) = _s.unpack_from(">i", buf, pos)
        pos += 4
        if n < 0:
            if n != -1 or t == "bytes":
                raise RefProtoError("bad bytes length %d" % n)
            return None, pos
        _need(buf, pos, n)
        return bytes(buf[pos:pos + n]), pos + n
    if t == "uvarint":
        return dec_uvarint(buf, pos)
    if t in ("cstr", "cnstr", "cbytes", "cnbytes"):
        n, pos = dec_uvarint(buf, pos)
        if n == 0:
            if t in ("cstr", "cbytes"):
                raise RefProtoError("null for non-nullable compact field")
            return None, pos
        n -= 1
        _need(buf, pos, n)
        raw = bytes(buf[pos:pos + n])
        return (raw.decode("utf-8") if t in ("cstr", "cnstr") else raw), pos + n
    if t == "tags":
        cnt, pos = dec_uvarint(buf, pos)
        res = {}
        for _ in range(cnt):
            tag, pos = dec_uvarint(buf, pos)
            sz, pos = dec_uvarint(buf, pos)
            _need(buf, pos, sz)
            res[tag] = bytes(buf[pos:pos + sz])
            pos += sz
        return res, pos
    raise RefProtoError("unknown type %r" % t)


def _enc_fields(schema, val, out):
    for name, t in schema:
        try:
            v = val[name]
        except (KeyError, TypeError):
            raise RefProtoError("missing field %s" % name)
        if isinstance(t, tuple):
            _, pre, elem = t
            compact = "c" in pre
            nullable = "?" in pre
            if v is None:
                if not nullable:
                    raise RefProtoError("null for non-nullable array %s" % name)
                out += b"\x00" if compact else _s.pack(">i", -1)
                continue
            out += enc_uvarint(len(v) + 1) if compact else _s.pack(">i", len(v))
            for e in v:
                if isinstance(elem, str):
                    _enc_prim(elem, e, out)
                else:
                    _enc_fields(elem, e, out)
        else:
            _enc_prim(t, v, out)


def _dec_fields(schema, buf, pos):
    res = {}
    for name, t in schema:
        if isinstance(t, tuple):
            _, pre, elem = t
            compact = "c" in pre
            nullable = "?" in pre
            if compact:
                n, pos = dec_uvarint(buf, pos)
                n -= 1
            else:
                _need(buf, pos, 4)
                (n,) = _s.unpack_from(">i", buf, pos)
                pos += 4
            if n < 0:
                if n != -1 or not nullable:
                    raise RefProtoError("bad array length %d for %s" % (n, name))
                res[name] = None
                continue
            if n > len(buf):
                raise RefProtoError("array length %d exceeds buffer" % n)
            items = []
            for _ in range(n):
                if isinstance(elem, str):
                    e, pos = _dec_prim(elem, buf, pos)
                else:
                    e, pos = _dec_fields(elem, buf, pos)
                items.append(e)
            res[name] = items
        else:
            res[name], pos = _dec_prim(t, buf, pos)
    return res, pos


def encode(schema, val):
    out = bytearray()
    _enc_fields(schema, val, out)
    return bytes(out)


def decode(schema, buf, pos=0, exact=True):
    buf = bytes(buf)
    v, pos = _dec_fields(schema, buf, pos)
    if exact and pos != len(buf):
        raise RefProtoError("%d trailing bytes" % (len(buf) - pos))
    return v


# ---------------------------------------------------------------- tables
from . import tables_core as _tc  # noqa: E402

REQUESTS = {}    # (api_key, version) -> parsed schema
RESPONSES = {}
FLEXIBLE = set()  # (api_key, version)
API_NAMES = {}


def _load(tables):
    for api_key, (name, entries) in tables.items():
        API_NAMES[api_key] = name
        for e in entries:
            versions, req, resp = e[0], e[1], e[2]
            flex = len(e) > 3 and e[3] == "flex"
            for v in versions:
                REQUESTS[(api_key, v)] = parse(req)
                if resp is not None:
                    RESPONSES[(api_key, v)] = parse(resp)
                if flex:
                    FLEXIBLE.add((api_key, v))
    for api_key, (name, entries) in getattr(_tc, "RESPONSE_ONLY", {}).items():
        for versions, resp in entries:
            for v in versions:
                RESPONSES[(api_key, v)] = parse(resp)


_load(_tc.APIS)
try:  # admin tables are optional (added for C11)
    from . import tables_admin as _ta
    _load(_ta.APIS)
except ImportError:  # pragma: no cover
    pass

REQ_HEADER_V1 = parse("api_key:i16 api_version:i16 correlation_id:i32 client_id:nstr")
REQ_HEADER_V2 = parse("api_key:i16 api_version:i16 correlation_id:i32 client_id:nstr _tags:tags")
RESP_HEADER_V0 = parse("correlation_id:i32")
RESP_HEADER_V1 = parse("correlation_id:i32 _tags:tags")


def is_flexible(api_key, version):
    return (api_key, version) in FLEXIBLE


def request_schema(api_key, version):
    return REQUESTS.get((api_key, version))


def response_schema(api_key, version):
    return RESPONSES.get((api_key, version))


def known_versions(api_key):
    return sorted(v for (k, v) in REQUESTS if k == api_key)


def decode_request(frame):
    """frame (without size prefix) -> (header dict, body dict)."""
    frame = bytes(frame)
    if len(frame) < 8:
        raise RefProtoError("frame shorter than a request header")
    api_key, version = _s.unpack_from(">hh", frame, 0)
    sch = REQUESTS.get((api_key, version))
    if sch is None:
        raise RefProtoError("no reference schema for api %d v%d" % (api_key, version))
    # ApiVersions response always uses header v0; its request v3+ uses header v2
    hs = REQ_HEADER_V2 if (api_key, version) in FLEXIBLE else REQ_HEADER_V1
    hdr, pos = _dec_fields(hs, frame, 0)
    body, pos = _dec_fields(sch, frame, pos)
    if pos != len(frame):
        raise RefProtoError("api %d v%d: %d trailing bytes in request" % (api_key, version, len(frame) - pos))
    return hdr, body


def encode_request_header(api_key, version, correlation_id, client_id, tags=None):
    if (api_key, version) in FLEXIBLE:
        return encode(REQ_HEADER_V2, {"api_key": api_key, "api_version": version,
                                      "correlation_id": correlation_id, "client_id": client_id,
                                      "_tags": tags or {}})
    return encode(REQ_HEADER_V1, {"api_key": api_key, "api_version": version,
                                  "correlation_id": correlation_id, "client_id": client_id})


def encode_response(api_key, version, correlation_id, body, header_tags=None):
    sch = RESPONSES[(api_key, version)]
    if (api_key, version) in FLEXIBLE and api_key != 18:
        hdr = encode(RESP_HEADER_V1, {"correlation_id": correlation_id, "_tags": header_tags or {}})
    else:
        hdr = encode(RESP_HEADER_V0, {"correlation_id": correlation_id})
    return hdr + encode(sch, body)


def decode_response(api_key, version, frame):
    frame = bytes(frame)
    if (api_key, version) in FLEXIBLE and api_key != 18:
        hdr, pos = _dec_fields(RESP_HEADER_V1, frame, 0)
    else:
        hdr, pos = _dec_fields(RESP_HEADER_V0, frame, 0)
    body, pos = _dec_fields(RESPONSES[(api_key, version)], frame, pos)
    if pos != len(frame):
        raise RefProtoError("trailing bytes in response")
    return hdr, body
