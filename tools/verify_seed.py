#!/venv/bin/python
"""Confirm a seeded change in its scratch worktree, then store it under /verif/seeded/<ID>/<name>/.

usage: tools/verify_seed.py <worktree> <seed-subdir> [--no-suite]
Steps (all inside the worktree, which is brought to /repo's HEAD first):
  1. demo on the clean tree must exit 0
  2. apply patch.diff (rebuild the extension when it touches .pyx/.c/.pxd), demo must exit 1
  3. the repository's test suite must pass with the change (same pass count as on the clean tree)
  4. revert (and rebuild)
Writes verify.json next to the seed and copies patch.diff, demo.py, meta.json (+ what was run) to /verif/seeded.
"""
import json, os, re, shutil, subprocess, sys

HERE = os.path.dirname(os.path.dirname(os.path.abspath(__file__)))
PY = "/venv/bin/python"


def sh(cmd, cwd, timeout=1800):
    r = subprocess.run(cmd, cwd=cwd, shell=True, stdout=subprocess.PIPE, stderr=subprocess.STDOUT, text=True, timeout=timeout)
    return r.returncode, r.stdout


def rebuild(wt):
    rc, out = sh(PY + " setup.py build_ext --inplace -q && rm -rf build", wt)
    if rc != 0:
        raise SystemExit("rebuild failed in %s:\n%s" % (wt, out[-2000:]))


def suite(wt):
    rc, out = sh(PY + " -m pytest -q -p no:cacheprovider --timeout=900 -x 2>&1 | tail -5", wt, timeout=3000)
    m = re.search(r"(\d+) passed", out)
    f = re.search(r"(\d+) failed", out)
    e = re.search(r"(\d+) error", out)
    return {"passed": int(m.group(1)) if m else 0, "failed": int(f.group(1)) if f else 0, "errors": int(e.group(1)) if e else 0,
            "tail": out.strip().splitlines()[-1] if out.strip() else ""}


def main():
    wt, sub = os.path.abspath(sys.argv[1]), sys.argv[2]
    no_suite = "--no-suite" in sys.argv
    sd = os.path.join(wt, sub)
    patch = os.path.join(sd, "patch.diff")
    meta = json.load(open(os.path.join(sd, "meta.json")))
    head = subprocess.check_output(["git", "-C", "/repo", "rev-parse", "HEAD"], text=True).strip()
    sh("git checkout -q -- aiokafka", wt)
    cur = subprocess.check_output(["git", "-C", wt, "rev-parse", "HEAD"], text=True).strip()
    res = {"repo_head": head, "worktree": wt, "seed": sub}
    if cur != head:
        changed = subprocess.check_output(["git", "-C", wt, "diff", "--name-only", cur, head], text=True).split()
        rc, out = sh("git checkout -q --detach %s" % head, wt)
        if rc != 0:
            raise SystemExit(out)
        if any(f.endswith((".pyx", ".pxd", ".c", ".h")) for f in changed):
            rebuild(wt)
    native = bool(re.search(r"^\+\+\+ b/.*\.(pyx|pxd|c|h)$", open(patch).read(), re.M))
    res["touches_native"] = native
    rc, out = sh(PY + " %s/demo.py" % sub, wt, timeout=600)
    res["demo_clean"] = {"rc": rc, "tail": out.strip().splitlines()[-3:]}
    if not no_suite:
        base_file = os.path.join("/tmp/seedwt", "baseline_%s.json" % head[:7])
        if os.path.exists(base_file):
            res["suite_clean"] = json.load(open(base_file))
        else:
            res["suite_clean"] = suite(wt)
            json.dump(res["suite_clean"], open(base_file, "w"))
    rc, out = sh("git apply --check %s/patch.diff && git apply %s/patch.diff" % (sub, sub), wt)
    res["applies_to_head"] = rc == 0
    if rc != 0:
        res["apply_error"] = out[-500:]
        json.dump(res, open(os.path.join(sd, "verify.json"), "w"), indent=1)
        print(json.dumps(res, indent=1)); return 3
    try:
        if native:
            rebuild(wt)
        rc, out = sh(PY + " %s/demo.py" % sub, wt, timeout=600)
        res["demo_changed"] = {"rc": rc, "tail": out.strip().splitlines()[-3:]}
        if not no_suite:
            res["suite_changed"] = suite(wt)
    finally:
        sh("git checkout -q -- aiokafka", wt)
        if native:
            rebuild(wt)
    ok = res["demo_clean"]["rc"] == 0 and res["demo_changed"]["rc"] == 1
    if not no_suite:
        ok = ok and res["suite_changed"]["failed"] == 0 and res["suite_changed"]["errors"] == 0 and \
            res["suite_changed"]["passed"] >= res["suite_clean"]["passed"]
    res["confirmed"] = ok
    json.dump(res, open(os.path.join(sd, "verify.json"), "w"), indent=1)
    if ok:
        pid = meta.get("property") or os.path.basename(wt)
        pid = os.path.basename(wt)
        dst = os.path.join(HERE, "seeded", pid, sub)
        os.makedirs(dst, exist_ok=True)
        for f in ("patch.diff", "demo.py"):
            shutil.copy(os.path.join(sd, f), os.path.join(dst, f))
        meta["property"] = pid
        meta["confirmed_by_builder"] = {
            "where": "scratch worktree of /repo at %s (outside /repo and /verif), extension rebuilt when the patch touches native sources" % head[:7],
            "ran": ["python %s/demo.py on the clean tree -> exit %d" % (sub, res["demo_clean"]["rc"]),
                    "git apply %s/patch.diff; python %s/demo.py -> exit %d" % (sub, sub, res["demo_changed"]["rc"])] +
                   ([] if no_suite else ["pytest -q -p no:cacheprovider --timeout=900 -x with the change -> %s (clean tree: %s)" %
                                         (res["suite_changed"]["tail"], res["suite_clean"]["tail"])]),
        }
        json.dump(meta, open(os.path.join(dst, "meta.json"), "w"), indent=1)
    print("%s/%s confirmed=%s demo clean rc=%s changed rc=%s suite=%s" % (
        os.path.basename(wt), sub, ok, res["demo_clean"]["rc"], res.get("demo_changed", {}).get("rc"),
        res.get("suite_changed", {}).get("tail")))
    return 0 if ok else 1


sys.exit(main())
