"""C08 - isolation filter: no aborted, no unstable, no control records delivered."""
from vlib.core import Outcome
from vlib.runner import Campaign

from . import _consumer_sim as CS

ID = "C08"
LEVEL = "exploration"
RULE = ("Case = per-partition interleaving of up to 4 transactional producers' events (data batch, commit, "
        "abort), plain batches and solitary markers, then compaction (whole batches removed, tails removed), "
        "open transactions at the end (LSO < HW), served with drawn response cuts; consumer program as in "
        "C03; both isolation levels. Oracle = an independent reader over the reference-decoded final log. "
        "Non-trivial = a fetch response contained an aborted batch and a later committed batch of the same "
        "producer, or a fetch started inside an aborted transaction, or the log holds a solitary abort "
        "marker / compacted-away transactional data, or an open transaction holds the LSO below the HW. "
        "Distinct = distinct case value.")
ASSUMPTIONS = ["simulated broker computes LSO and the aborted-transaction index as Kafka does (vlib/simkafka)",
               "independent read-committed reader props/_consumer_sim.visible_records over vlib/refrecords output"]


def evaluate(case, obs):
    out = Outcome()
    if obs.start_error is not None:
        out.label("start_failed")
        return out
    c = obs.cluster
    for e in c.harness_errors:
        raise RuntimeError("simulator error: %s" % e)
    iso = case["cfg"]["isolation"]
    if obs.deadlock:
        out.fail("drains", "deadlock", {"deadlock": obs.deadlock})
    if obs.tasks_hung:
        out.fail("drains", "application_call_blocked_after_quiet", {"bound": obs.bound})
    pos, delivered, vis = CS.check_delivery(case, obs, out, iso)
    # position passes everything that was filtered: after the drain the position must lie at or
    # beyond the end of the last stored batch below the bound (LSO / HW), and not beyond the bound
    # (unless a user seek put it there)
    if not obs.deadlock:
        for k, p in obs.final_positions.items():
            f = obs.final[k]
            bound = f["lso"] if iso == "read_committed" else f["hw"]
            reach = pos[k]
            for b in f["decoded"]:
                if b["base_offset"] < bound and b["last_offset"] + 1 > reach and b["last_offset"] >= pos[k]:
                    reach = b["last_offset"] + 1
            reach = min(reach, max(bound, pos[k]))
            if isinstance(p, int) and not [x for x in vis[k] if x[0] >= pos[k]]:
                if p < reach:
                    out.fail("position_passes_filtered", "stalled_before_end",
                             {"tp": k, "position": p, "reachable": reach, "isolation": iso, "hw": f["hw"], "lso": f["lso"]})
                elif p > max(bound, pos[k]):
                    out.fail("position_passes_filtered", "beyond_end",
                             {"tp": k, "position": p, "bound": bound, "isolation": iso, "hw": f["hw"], "lso": f["lso"]})
    # no refetch loop: the same offset fetched again and again although data was returned
    cnt = {}
    for a in c.arrivals:
        if a.key != 1:
            continue
        for (t, p, off, bases) in a.extra.get("served", []):
            if bases:
                cnt[(t, p, off)] = cnt.get((t, p, off), 0) + 1
    seeks = sum(1 for ev in obs.events if ev["op"] == "seek")
    for key, n in cnt.items():
        if n > 6 + 2 * seeks + 2 * len(c.fault_log):
            out.fail("no_refetch_loop", "same_offset_refetched", {"tp_offset": list(key), "times": n})
    # non-triviality
    nt = False
    for lg in case["logs"]:
        kinds = [(b.get("kind"), b.get("pid"), b.get("gone")) for b in lg["batches"]]
        if any(k == "abort" for k, _, _ in kinds):
            out.label("has_aborted_txn")
        aborted_pids = {p for k, p, _ in kinds if k == "abort"}
        committed_pids = {p for k, p, _ in kinds if k == "commit"}
        if aborted_pids & committed_pids:
            nt = True
            out.label("producer_with_aborted_and_committed_txn")
        if any(g for _, _, g in kinds):
            nt = True
            out.label("compacted_batches")
    for k, f in obs.final.items():
        if f["lso"] < f["hw"]:
            nt = True
            out.label("open_txn_lso_below_hw")
    for a in c.arrivals:
        if a.key == 1 and a.reply:
            for t in a.reply["topics"]:
                for p in t["partitions"]:
                    if p.get("aborted"):
                        out.label("aborted_index_served")
                        if any(x["first_offset"] < [q for tt in a.body["topics"] if tt["topic"] == t["topic"]
                                                     for q in tt["partitions"] if q["partition"] == p["partition"]][0]["offset"]
                               for x in p["aborted"]):
                            nt = True
                            out.label("fetch_started_inside_aborted_txn")
    out.nontrivial = nt
    out.label("iso_" + iso)
    out.info = {"delivered": {k: len(v) for k, v in delivered.items()},
                "visible": {k: len(v) for k, v in vis.items()}, "vtime": round(obs.vtime, 2)}
    return out


def execute(case):
    return evaluate(case, CS.run(case))


# producer ids are int64 on the wire: 0 is legal, ids beyond 2^31 / 2^32 must not be narrowed (the last equals 1 mod 2^32)
PIDS = [0, 1, 2, (1 << 31) + 3, (1 << 32) + 1]


def txn_log(draw, st, n_events):
    """Interleaved producer events -> batch specs."""
    specs = []
    open_ = {}
    seq = {}
    for _ in range(n_events):
        r = draw(st.integers(0, 11))
        pid = draw(st.sampled_from(PIDS))
        if r <= 4:
            n = draw(st.integers(1, 3))
            specs.append({"fmt": "v2", "kind": "data", "n": n, "pid": pid, "txn": True, "seq": seq.get(pid, 0),
                          "codec": draw(st.sampled_from([0, 0, 1, 3])), "ts": [7]})
            seq[pid] = seq.get(pid, 0) + n
            open_[pid] = True
        elif r <= 6:
            if open_.get(pid):
                specs.append({"kind": "commit", "pid": pid})
                if draw(st.integers(0, 7)) == 0:
                    specs[-1]["attrs_extra"] = 0x40         # delete-horizon flag set by the log cleaner (KIP-534)
                if draw(st.integers(0, 5)) == 0:
                    specs[-1]["key_extra"] = b"\x00\x07"       # a marker key with more than (version, type)
                open_[pid] = False
            else:
                specs.append({"fmt": "v2", "kind": "data", "n": draw(st.integers(1, 3)), "ts": [9],
                              "codec": draw(st.sampled_from([0, 2]))})
        elif r <= 8:
            if open_.get(pid) or draw(st.integers(0, 2)) == 0:      # sometimes a solitary abort marker
                specs.append({"kind": "abort", "pid": pid})
                if draw(st.integers(0, 5)) == 0:
                    specs[-1]["key_extra"] = b"\x00\x00\x00\x2a"
                open_[pid] = False
            else:
                specs.append({"fmt": "v2", "kind": "data", "n": 1, "ts": [9]})
        elif r == 9:
            specs.append({"fmt": "v2", "kind": "data", "n": draw(st.integers(1, 4)), "ts": [3],
                          "tail": draw(st.integers(0, 1))})
        elif r == 10:
            specs.append({"fmt": "v2", "kind": "data", "n": 2, "pid": pid + 10, "seq": 0, "ts": [4]})   # idempotent, not txn
        else:
            specs.append({"fmt": "v2", "kind": "empty", "n": 1, "tail": draw(st.integers(0, 2)), "ts": [1]})
    # compaction: remove some whole batches (never the markers' own semantics: markers may stay solitary)
    for s in specs[:-1]:     # the cleaner never removes the batch holding the log's last offset
        if s.get("kind") == "data" and draw(st.integers(0, 7)) == 0:
            s["gone"] = True
    return specs


def strategy():
    from hypothesis import strategies as st

    @st.composite
    def cases(draw):
        nodes = draw(st.integers(1, 2))
        nparts = draw(st.integers(1, 2))
        iso = draw(st.sampled_from(["read_committed", "read_committed", "read_uncommitted"]))
        logs = []
        for p in range(nparts):
            logs.append({"topic": "t0", "nparts": nparts, "partition": p,
                         "log_start": draw(st.sampled_from([0, 0, 50])),
                         "batches": txn_log(draw, st, draw(st.integers(1, 25)))})
        cfg = {"mode": "assign", "isolation": iso,
               "max_partition_fetch_bytes": draw(st.sampled_from([1048576, 400, 150])),
               "fetch_max_wait_ms": draw(st.sampled_from([20, 100])),
               "request_timeout_ms": 400, "retry_backoff_ms": 20, "metadata_max_age_ms": 5000,
               "max_poll_records": draw(st.sampled_from([None, 1, 4]))}
        idxs = st.lists(st.integers(0, nparts - 1), max_size=nparts)
        tasks = []
        for ti in range(draw(st.integers(1, 2))):
            ops = []
            for _ in range(draw(st.integers(1, 12))):
                r = draw(st.integers(0, 11))
                if r <= 3:
                    ops.append(["getone", draw(idxs), draw(st.sampled_from([0.02, 0.2]))])
                elif r <= 7:
                    ops.append(["getmany", draw(idxs), draw(st.sampled_from([None, 1, 3])), draw(st.sampled_from([0, 50, 200]))])
                elif r <= 9:
                    ops.append(["seek", draw(st.integers(0, nparts - 1)), draw(st.sampled_from([0.0, 0.15, 0.35, 0.5, 0.7, 0.9, 1.0]))])
                elif r == 10:
                    ops.append(["position", draw(st.integers(0, nparts - 1))])
                else:
                    ops.append(["sleep", draw(st.sampled_from([0.0, 0.004, 0.05]))])
            tasks.append(ops)
        pre = []
        for p in range(nparts):
            if draw(st.booleans()):
                pre.append(["seek", p, draw(st.sampled_from([0.1, 0.25, 0.4, 0.6, 0.8]))])
        faults = []
        for _ in range(draw(st.integers(0, 3))):
            faults.append({"sel": "fetch", "k": draw(st.integers(0, 5)),
                           "act": draw(st.sampled_from(["error", "drop", "no_reply", "delay"])),
                           "code": draw(st.sampled_from([6, 3, 7])), "delay": draw(st.sampled_from([0.05, 0.6]))})
        env = []
        for _ in range(draw(st.integers(0, 2))):
            kind = draw(st.sampled_from(["data", "commit", "abort"]))
            spec = {"fmt": "v2", "kind": "data", "n": 2, "ts": [5]} if kind == "data" else {"kind": kind, "pid": draw(st.sampled_from(PIDS))}
            env.append({"at": draw(st.sampled_from([0.02, 0.1, 0.4])), "ev": "append",
                        "log": draw(st.integers(0, nparts - 1)), "spec": spec})
        return {"cfg": cfg, "cluster": {"nodes": nodes, "fetch_max": draw(st.sampled_from([11, 11, 10, 7, 5, 4])),
                                        "list_offsets_max": draw(st.sampled_from([3, 2]))},
                "logs": logs, "tasks": tasks, "pre": pre, "faults": faults, "env": env,
                "shape_batches": draw(st.lists(st.sampled_from([0, 1, 1, 2, 3]), min_size=1, max_size=4)),
                "shape_partial": draw(st.lists(st.sampled_from([0, 0, 10, 60]), min_size=1, max_size=3)),
                "lat": draw(st.lists(st.sampled_from([0.0005, 0.002, 0.01]), min_size=1, max_size=3)),
                "chunks": draw(st.lists(st.sampled_from([0, 0, 7, 64]), min_size=1, max_size=3)),
                "rng_seed": draw(st.integers(0, 2 ** 31)),
                "debug_log": draw(st.integers(0, 7)) == 0,
                "drain": draw(st.sampled_from(["getmany", "getmany", "getone"]))}
    return cases()


def _mk_log(events):
    """[("d", pid, n) | ("c", pid) | ("a", pid) | ("p", n)] -> batch specs (p: non-transactional data)"""
    specs, seq = [], {}
    for e in events:
        if e[0] == "d":
            specs.append({"fmt": "v2", "kind": "data", "n": e[2], "pid": e[1], "txn": True, "seq": seq.get(e[1], 0), "ts": [3]})
            seq[e[1]] = seq.get(e[1], 0) + e[2]
        elif e[0] == "p":
            specs.append({"fmt": "v2", "kind": "data", "n": e[1], "ts": [4]})
        else:
            specs.append({"kind": "commit" if e[0] == "c" else "abort", "pid": e[1]})
            if len(e) > 2:
                specs[-1]["key_extra"] = e[2]
    # the log cleaner of newer brokers (KIP-534) sets the delete-horizon attribute bit (0x40) on batches it has cleaned:
    # every third batch of these logs carries it
    for i, sp in enumerate(specs):
        if i % 3 == 1:
            sp["attrs_extra"] = 0x40
    return specs


BOUNDARY_LOGS = [
    [("d", 1, 2), ("a", 1), ("d", 1, 2), ("c", 1, b"\x00\x07"), ("d", 1, 1), ("a", 1, b"\x00\x00\x00\x2a"), ("d", 1, 2), ("c", 1)],
    [("d", 1, 2), ("d", 2, 1), ("a", 1), ("d", 1, 1), ("d", 2, 2), ("c", 2), ("c", 1), ("d", 2, 1), ("a", 2), ("d", 2, 2),
     ("c", 2)],
    [("p", 2), ("a", 0), ("d", 0, 2), ("c", 0), ("p", 1), ("d", 0, 1), ("d", (1 << 32) + 1, 2), ("a", 0), ("c", (1 << 32) + 1),
     ("d", 0, 1), ("c", 0)],
]


def boundary_cases(shard, nshards):
    """Hand-made logs in which a producer aborts and then commits (two producers interleaved; a solitary abort
    marker), read from EVERY start offset with 1, 2, 3 or all batches per fetch response: every way a response can begin
    or end inside a transaction, at its marker, or right behind it."""
    i = 0
    for li, ev in enumerate(BOUNDARY_LOGS):
        specs = _mk_log(ev)
        total = sum(s.get("n", 1) for s in specs)
        for iso in ("read_committed", "read_uncommitted"):
            for shape in ([1], [2], [3], [0], [1, 2]):
                for start in range(total + 1):
                    for drain in (("getmany", "getone") if start % 2 == 0 else ("getmany",)):
                        i += 1
                        if i % nshards != shard:
                            continue
                        yield {"cfg": {"mode": "assign", "isolation": iso, "max_partition_fetch_bytes": 1048576,
                                       "fetch_max_wait_ms": 20, "request_timeout_ms": 400, "retry_backoff_ms": 20,
                                       "metadata_max_age_ms": 5000, "max_poll_records": None},
                               "cluster": {"nodes": 1, "fetch_max": 11, "list_offsets_max": 3},
                               "logs": [{"topic": "t0", "nparts": 1, "partition": 0, "log_start": 0, "batches": specs}],
                               "tasks": [[["getmany", [0], None, 50]]],
                               "pre": [["seek", 0, (start + 0.5) / (total + 1)]] if start else [],
                               "faults": [], "env": [], "shape_batches": shape, "shape_partial": [0], "lat": [0.001],
                               "chunks": [0], "rng_seed": li, "drain": drain}


def campaigns(tier):
    th = tier == "thorough"
    return [Campaign("response_boundaries", "enum", execute=execute, cases=boundary_cases, exhaustive=True, setup=CS.setup),
            Campaign("isolation_sim", "hyp", execute=execute, strategy=strategy,
                     examples=30000 if th else 6000, setup=CS.setup, max_wall=900 if th else 100, shrink_wall=40)]
