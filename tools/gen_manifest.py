#!/venv/bin/python
"""Generate MANIFEST.json from the table below (keeps it valid at all times)."""
import json, os
HERE = os.path.dirname(os.path.dirname(os.path.abspath(__file__)))
BASE = ("cd /repo && env -u AIOKAFKA_VERIF /venv/bin/python -m pytest -ra -q -p no:cacheprovider "
        "--timeout=900 --continue-on-collection-errors")
ALL = ["C%02d" % i for i in range(1, 20)]
import importlib.util, sys
sys.path.insert(0, HERE)
spec = importlib.util.spec_from_file_location("mtable", os.path.join(HERE, "tools", "manifest_table.py"))
mt = importlib.util.module_from_spec(spec); spec.loader.exec_module(mt)
checks = []
na = []
for pid in ALL:
    e = mt.CHECKS.get(pid)
    if e is None or not os.path.exists(os.path.join(HERE, "props", pid.lower() + ".py")):
        na.append({"property_id": pid, "reason": mt.NOT_YET.get(pid, "check not built yet in this session; design in DESIGN.md section 3")})
        continue
    checks.append({
        "property_id": pid,
        "quick_cmd": "./check %s --tier quick" % pid,
        "thorough_cmd": "./check %s --tier thorough" % pid,
        "evidence_file": "/verif/evidence/%s.json" % pid,
        "replay_cmd_template": "./check %s --replay {path}" % pid,
        "engine": "vlib-runner",
        "level_claimed": {"category": e["level"], "text": e["text"], "design_ref": "DESIGN.md section 3, " + pid},
        "level_note": e["note"],
        "technique": e["technique"],
    })
m = {
    "version": 1,
    "setup_cmd": "./setup.sh",
    "hooks": {"guard": "AIOKAFKA_VERIF", "enable": "none needed: no hooks are compiled into /repo; checks stage and build the working tree out of tree (vlib/stage.py)",
              "baseline_off_cmd": BASE, "source_commits": [], "add_only": True},
    "engines": [{"name": "vlib-runner", "path": "vlib/runner.py", "serves_properties": [c["property_id"] for c in checks],
                 "kind_free_text": "Hypothesis strategies / exhaustive enumeration / fuzzing campaigns on a 16-process pool, collect-then-shrink, replay files, known-findings filter"}],
    "checks": checks,
    "not_applicable": na,
    "notes": "All checks: ./check <ID> --tier quick|thorough, cwd /verif. exit 0 held / 1 VIOLATION / 2 harness error. Known findings in known_findings.json.",
}
json.dump(m, open(os.path.join(HERE, "MANIFEST.json"), "w"), indent=1)
print("checks:", [c["property_id"] for c in checks], "not_applicable:", [n["property_id"] for n in na])
