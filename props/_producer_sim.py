"""Shared scenario runner for C01 / C02: a real AIOKafkaProducer on the simulated cluster."""
import asyncio
import random

from vlib import refrecords as RR
from vlib import simloop
from vlib.simkafka import Cluster
from vlib.simkafka import cluster as SC
from vlib.simloop import Cyclic

_SHIMMED = [False]
SEQ_MAX = 2 ** 31 - 1


def setup():
    import aiokafka  # noqa
    import aiokafka.producer.producer  # noqa
    import aiokafka.consumer.consumer  # noqa
    simloop.install_time_shim()
    _SHIMMED[0] = True


def _tp_key(topic, partition):
    return "%s:%d" % (topic, partition)


def make_value(task, idx, pad):
    return b"%d.%d." % (task, idx) + b"x" * pad


def value_id(v):
    try:
        a, b, _ = v.split(b".", 2)
        return (int(a), int(b))
    except Exception:
        return None


class Obs:
    """Everything observed in one run."""

    def __init__(self):
        self.sends = []          # dict per send attempt
        self.flushes = []        # (t_call, t_return, pending ids at call)
        self.stop = None         # dict
        self.stop_raised = None  # (type, repr) when producer.stop() raised
        self.start_error = None
        self.deadlock = None
        self.notes = []
        self.cluster = None
        self.final_logs = {}     # tp key -> decoded batches
        self.skipped_wrap = False
        self.wrap_injected = False
        self.sender_exc = None
        self.exc_log = []
        self.t_quiet = None
        self.unresolved_after_bound = []
        self.final_flush_returned = None
        self.final_stop_returned = None
        self.vtime = 0.0
        self.tasks_hung = False
        self.bound = None


async def _main(case, obs, loop, net):
    from aiokafka import AIOKafkaProducer
    from aiokafka.errors import KafkaError
    from aiokafka.structs import TopicPartition

    cfg = case["cfg"]
    cl = case["cluster"]
    random.seed(case["rng_seed"])
    pers = {}
    if cl.get("produce_max") is not None:
        pers[0] = (0, cl["produce_max"])
    if cl.get("metadata_max") is not None:
        pers[3] = (0, cl["metadata_max"])
    c = Cluster(loop, net, n_nodes=cl["nodes"], personality=pers)
    obs.cluster = c
    for t in cl["topics"]:
        c.add_topic(t["name"], t["partitions"], ts_type=t.get("ts_type", 0),
                    leaders=t.get("leaders"))
    c.set_faults(case.get("faults", []))
    c.schedule(case.get("env", []))
    kw = dict(bootstrap_servers=c.bootstrap(), request_timeout_ms=cfg["request_timeout_ms"],
              retry_backoff_ms=cfg["retry_backoff_ms"], max_batch_size=cfg["max_batch_size"],
              linger_ms=cfg["linger_ms"], compression_type=cfg.get("compression"),
              metadata_max_age_ms=cfg["metadata_max_age_ms"], enable_idempotence=cfg["idempotent"])
    if cfg.get("acks") is not None:
        kw["acks"] = cfg["acks"]
    producer = AIOKafkaProducer(**kw)
    try:
        await asyncio.wait_for(producer.start(), 60.0)
    except Exception as e:
        obs.start_error = repr(e)
        try:
            await asyncio.wait_for(producer.stop(), 60.0)
        except Exception:
            pass
        return
    # starting sequence injection (the state the property anchors)
    for tpk, seq in (case.get("start_seq") or {}).items():
        tm = producer._txn_manager
        seqs = getattr(tm, "_sequence_numbers", None) if tm is not None else None
        if seqs is None or not hasattr(tm, "producer_id"):
            obs.skipped_wrap = True
            continue
        topic, p = tpk.rsplit(":", 1)
        pl = c.log(topic, int(p))
        if pl is None:
            continue
        seqs[TopicPartition(topic, int(p))] = seq
        st = SC.ProducerState(tm.producer_epoch, (seq - 1) % SC.SEQ_MOD if seq > 0 else -1)
        pl.producers[tm.producer_id] = st
        obs.wrap_injected = True

    stopped = {"called": False}

    def track(rec, fut):
        rec["accepted"] = True
        rec["t_accept"] = loop._vtime
        rec["n_done"] = 0
        rec["fut"] = fut

        def cb(f):
            rec["n_done"] += 1
            rec["t_done"] = loop._vtime
            if f.cancelled():
                rec["outcome"] = ("cancelled",)
            elif f.exception() is not None:
                rec["outcome"] = ("error", type(f.exception()).__name__, repr(f.exception()))
            else:
                r = f.result()
                if r is None:
                    rec["outcome"] = ("none",)
                else:
                    rec["outcome"] = ("ok", r.topic, r.partition, r.offset, r.timestamp,
                                      r.timestamp_type)
        fut.add_done_callback(cb)

    def pending_ids():
        return [s["id"] for s in obs.sends if s.get("accepted") and not s["fut"].done()]

    async def do_stop(tag):
        stopped["called"] = True
        pend = pending_ids()
        t0 = loop._vtime
        try:
            await producer.stop()
        except asyncio.CancelledError:
            raise
        except Exception as e:
            # stop() is not supposed to raise: recorded and judged by the property modules (never a harness error)
            obs.stop_raised = (type(e).__name__, repr(e)[:300])
        obs.stop = {"t_call": t0, "t_return": loop._vtime, "pending_at_call": pend, "tag": tag,
                    "undone_at_return": [s["id"] for s in obs.sends
                                         if s.get("accepted") and s.get("t_accept", 1e18) <= t0
                                         and not s["fut"].done()]}

    async def run_task(ti, ops):
        for oi, op in enumerate(ops):
            kind = op[0]
            if kind == "sleep":
                await asyncio.sleep(op[1])
            elif kind == "flush":
                pend = pending_ids()
                t0 = loop._vtime
                try:
                    await producer.flush()
                    obs.flushes.append({"t_call": t0, "t_return": loop._vtime,
                                        "undone_at_return": [s["id"] for s in obs.sends
                                                             if s["id"] in set(map(tuple, pend))
                                                             and not s["fut"].done()]})
                except Exception as e:
                    obs.notes.append("flush raised %r" % e)
            elif kind == "stop":
                if not stopped["called"]:
                    await do_stop("mid")
            elif kind in ("send", "send_wait", "send_tmo"):
                _, tname, part, key, ts, headers, pad = op[:7]
                rec = {"id": (ti, oi * 1000), "task": ti, "idx": oi * 1000, "topic": tname, "req_partition": part,
                       "key": key, "ts": ts, "headers": headers, "t_call": loop._vtime,
                       "accepted": False}
                obs.sends.append(rec)
                value = make_value(ti, oi * 1000, pad)
                rec["value"] = value
                try:
                    fut = await producer.send(tname, value, key=key, partition=part,
                                              timestamp_ms=ts,
                                              headers=[(h[0], h[1]) for h in headers] or None)
                except (KafkaError, AssertionError) as e:
                    rec["send_error"] = (type(e).__name__, repr(e))
                    continue
                track(rec, fut)
                if kind == "send_wait":
                    try:
                        await fut
                    except Exception:
                        pass
                elif kind == "send_tmo":
                    # the application gives up waiting: wait_for() cancels the delivery future
                    try:
                        await asyncio.wait_for(fut, op[7])
                    except asyncio.TimeoutError:
                        rec["app_cancelled"] = True
                    except Exception:
                        pass
            elif kind == "send_bad":
                # a record the producer has to refuse (timestamp of the wrong type): the call raises, and the records
                # accepted before and after it are not affected
                _, tname, part = op
                rec = {"id": (ti, oi * 1000), "task": ti, "idx": oi * 1000, "topic": tname, "req_partition": part,
                       "key": None, "ts": None, "headers": [], "t_call": loop._vtime, "accepted": False, "bad": True}
                obs.sends.append(rec)
                rec["value"] = make_value(ti, oi * 1000, 0)
                try:
                    fut = await producer.send(tname, rec["value"], partition=part, timestamp_ms="not-a-number")
                except Exception as e:
                    rec["send_error"] = (type(e).__name__, repr(e))
                    continue
                track(rec, fut)
            elif kind == "batch":
                _, tname, part, n, pad = op[:5]
                b = producer.create_batch()
                recs = []
                for j in range(n):
                    value = make_value(ti, oi * 1000 + j, pad)
                    md = b.append(key=None, value=value, timestamp=None)
                    if md is None:
                        break
                    recs.append({"id": (ti, oi * 1000 + j), "task": ti, "idx": oi * 1000 + j,
                                 "topic": tname, "req_partition": part, "key": None, "ts": None,
                                 "headers": [], "t_call": loop._vtime, "accepted": False,
                                 "value": value, "batch_rel": j, "in_batch": True})
                obs.sends.extend(recs)
                try:
                    fut = await producer.send_batch(b, tname, partition=part)
                except (KafkaError, AssertionError) as e:
                    for r in recs:
                        r["send_error"] = (type(e).__name__, repr(e))
                    continue
                # one future for the whole batch: resolves with the base offset
                for r in recs:
                    r["batch_future"] = True
                    track(r, fut)
                if len(op) > 5 and op[5] is not None:
                    # the application gives up waiting for the batch: wait_for() cancels the future send_batch() returned
                    try:
                        await asyncio.wait_for(fut, op[5])
                    except asyncio.TimeoutError:
                        for r in recs:
                            r["app_cancelled"] = True
                    except Exception:
                        pass

    tasks = [asyncio.ensure_future(run_task(i, ops)) for i, ops in enumerate(case["tasks"])]
    bound = 10 * cfg["request_timeout_ms"] / 1000.0 + 40 * cfg["retry_backoff_ms"] / 1000.0 + 5.0
    obs.bound = bound
    done, pend = await asyncio.wait(tasks, timeout=60.0)
    # ---- quiet point
    c.make_quiet()
    obs.t_quiet = loop._vtime
    if pend:
        obs.notes.append("application tasks still blocked at the quiet point")
        done, pend = await asyncio.wait(pend, timeout=bound)
        if pend:
            obs.tasks_hung = True
            obs.notes.append("application tasks blocked %.1fs after the quiet point" % bound)
            for t in pend:
                t.cancel()
    for t in done:
        if not t.cancelled() and t.exception() is not None:
            raise t.exception()
    if not stopped["called"]:
        try:
            await asyncio.wait_for(producer.flush(), bound)
            obs.final_flush_returned = loop._vtime
        except asyncio.TimeoutError:
            obs.final_flush_returned = None
            obs.notes.append("final flush did not return within bound")
        obs.unresolved_after_bound = [s["id"] for s in obs.sends if s.get("accepted") and not s["fut"].done()]
        try:
            await asyncio.wait_for(do_stop("final"), bound)
            obs.final_stop_returned = loop._vtime
        except asyncio.TimeoutError:
            obs.notes.append("final stop did not return within bound")
    else:
        await asyncio.sleep(bound)
        obs.unresolved_after_bound = [s["id"] for s in obs.sends if s.get("accepted") and not s["fut"].done()]
    st = producer._sender.sender_task
    if st is not None and st.done() and not st.cancelled() and st.exception() is not None:
        obs.sender_exc = repr(st.exception())


def _run(case):
    """Execute the case; returns Obs."""
    if not _SHIMMED[0]:
        setup()
    obs = Obs()
    net_kwargs = {"latencies": case.get("lat") or [0.001], "chunks": case.get("chunks") or [0],
                  "connect_latencies": case.get("clat") or [0.001]}
    holder = {}

    async def main(loop, net):
        holder["loop"] = loop
        await _main(case, obs, loop, net)

    _, exc, loop, net = simloop.run_case(main, net_kwargs=net_kwargs, vtime_cap=1800.0)
    obs.vtime = loop._vtime
    if exc is not None:
        if isinstance(exc, (simloop.Deadlock, simloop.VirtualTimeLimit, simloop.BusyLoop)):
            obs.deadlock = repr(exc)
        else:
            simloop.finish(loop)
            raise exc
    obs.exc_log = list(loop.exc_log)
    c = obs.cluster
    if c is not None:
        for tname, parts in c.topics.items():
            for pl in parts:
                obs.final_logs[_tp_key(tname, pl.partition)] = (pl, pl.decoded())
    obs.leftover = simloop.leftover(loop, net) if exc is None else None
    simloop.finish(loop)
    for s in obs.sends:
        s.pop("fut", None)
    return obs


# ------------------------------------------------------------------ derived views
def log_records(obs):
    """tp key -> list of (offset, id, record dict, batch dict) for data records."""
    out = {}
    for tpk, (pl, batches) in obs.final_logs.items():
        rows = []
        for b in batches:
            if b.get("control"):
                continue
            for r in b["records"]:
                rows.append((r["offset"], value_id(r["value"] or b""), r, b))
        out[tpk] = rows
    return out


def produce_arrivals(obs):
    """Produce requests in arrival order with their per-partition batches."""
    res = []
    for a in obs.cluster.arrivals:
        if a.key != 0:
            continue
        res.append(a)
    return res


# ------------------------------------------------------------------ generator
def strategy(focus, wrap=False):
    """focus: 'order' (C01) or 'futures' (C02); wrap: start near the 2^31-1 sequence boundary."""
    from hypothesis import strategies as st

    focus_arg = focus

    @st.composite
    def cases(draw):
        idem = True if wrap else draw(st.booleans())
        outage = focus_arg == "outage"
        if outage:
            idem = draw(st.integers(0, 3)) > 0
        cancel = focus_arg == "cancel"
        if cancel:
            idem = draw(st.integers(0, 3)) == 0
        nodes = draw(st.integers(2, 3)) if outage else draw(st.integers(1, 3))
        ntopics = draw(st.integers(1, 2))
        topics = []
        focus = "futures" if cancel else ("order" if outage else focus_arg)
        produce_max = draw(st.sampled_from([7, 7, 7, 5, 3, 2, 1, 0])) if focus == "futures" else 7
        if idem and produce_max < 3:
            produce_max = 3
        for i in range(ntopics):
            ts_type = draw(st.sampled_from([0, 0, 1])) if (focus == "futures" and produce_max >= 2) else 0
            topics.append({"name": "t%d" % i, "partitions": draw(st.integers(1, 3)), "ts_type": ts_type})
        if idem:
            acks = draw(st.sampled_from([None, -1, "all"]))
        else:
            acks = draw(st.sampled_from([1, 1, -1, 0] if focus == "futures" else [1, 1, -1, -1, 0]))
        cfg = {
            "idempotent": idem, "acks": acks,
            "max_batch_size": draw(st.sampled_from([80, 120, 200, 400, 600])),
            "linger_ms": draw(st.sampled_from([5, 50, 50] if cancel else [0, 0, 5, 50])),
            "compression": draw(st.sampled_from([None, None, "gzip", "snappy", "lz4", "zstd"])),
            "request_timeout_ms": draw(st.sampled_from([200, 400, 1000])),
            "retry_backoff_ms": draw(st.sampled_from([10, 30, 100])),
            "metadata_max_age_ms": draw(st.sampled_from([300, 1000, 5000])),
        }
        ntasks = draw(st.integers(1, 3))
        pauses = st.sampled_from([0.0, 0.0, 0.001, 0.003, 0.01, 0.05, 0.3])
        tasks = []
        for ti in range(ntasks):
            nops = draw(st.integers(1, 25 if ti == 0 else 12))
            ops = []
            for _ in range(nops):
                r = draw(st.integers(0, 19))
                t = draw(st.sampled_from(topics))
                part = draw(st.integers(0, t["partitions"] - 1))
                if r <= 12:
                    keyed = draw(st.integers(0, 5)) == 0
                    key = draw(st.binary(min_size=0, max_size=6)) if keyed else None
                    if focus == "futures":
                        ts = draw(st.one_of(st.none(), st.integers(1, 10 ** 12)))
                        headers = draw(st.lists(st.tuples(st.sampled_from(["h", "ké"]),
                                                          st.one_of(st.none(), st.binary(max_size=4))),
                                                max_size=2))
                    else:
                        ts = None
                        headers = []
                    ops.append(["send_wait" if draw(st.integers(0, 7)) == 0 else "send", t["name"],
                                None if keyed else part, key, ts, [list(h) for h in headers],
                                draw(st.sampled_from([0, 0, 10, 40, 150]))])
                    if cancel and draw(st.integers(0, 2)) == 0:
                        # another task gives up on its record after a while (wait_for cancels the future)
                        ops[-1][0] = "send_tmo"
                        ops[-1].append(draw(st.sampled_from([0.002, 0.01, 0.04, 0.1, 0.3])))
                elif r <= 15:
                    ops.append(["sleep", draw(pauses)])
                elif r == 16:
                    ops.append(["flush"])
                elif r == 17:
                    ops.append(["batch", t["name"], part, draw(st.integers(1, 4)), draw(st.sampled_from([0, 20]))])
                    if cancel and draw(st.integers(0, 1)) == 0:
                        ops[-1].append(draw(st.sampled_from([0.002, 0.01, 0.04, 0.1, 0.3])))
                elif r == 18 and focus == "futures":
                    ops.append(["stop"])
                elif r == 19 and focus == "futures":
                    ops.append(["send_bad", t["name"], part])
                else:
                    ops.append(["sleep", draw(pauses)])
            tasks.append(ops)
        retri = [3, 5, 6, 7, 19, 20]
        nf = draw(st.integers(0, 8))
        faults = []
        for _ in range(nf):
            sel = draw(st.sampled_from(["produce", "produce", "produce", "metadata", "init_pid"]))
            if sel == "produce":
                act = draw(st.sampled_from(["error", "error_first", "apply_error", "drop", "apply_drop", "no_reply",
                                            "swallow", "delay"]))
                code = draw(st.sampled_from(retri))
                if act == "apply_error":
                    code = draw(st.sampled_from([7, 20]))
            elif sel == "metadata":
                act = draw(st.sampled_from(["stale", "drop", "no_reply", "delay", "error"]))
                code = draw(st.sampled_from([5, 3]))
            else:
                act = draw(st.sampled_from(["error", "drop", "no_reply"]))
                code = draw(st.sampled_from([14, 15, 16]))
            faults.append({"sel": sel, "k": draw(st.integers(0, 6)), "act": act, "code": code,
                           "delay": draw(st.sampled_from([0.05, 0.3, 1.5]))})
        if cancel and not idem and draw(st.booleans()):
            # a batch refused for good (MESSAGE_TOO_LARGE): every record of it that is still wanted must be failed
            faults.append({"sel": "produce", "k": draw(st.integers(0, 3)), "act": draw(st.sampled_from(["error", "error_first"])),
                           "code": 10, "delay": 0.05})
        env = []
        if nodes > 1:
            for _ in range(draw(st.integers(0, 3))):
                t = draw(st.sampled_from(topics))
                env.append({"at": draw(st.sampled_from([0.005, 0.02, 0.05, 0.2, 0.6])), "ev": "move_leader",
                            "topic": t["name"], "partition": draw(st.integers(0, t["partitions"] - 1)),
                            "to": draw(st.integers(0, nodes - 1))})
            if draw(st.integers(0, 5)) == 0:
                n = draw(st.integers(0, nodes - 1))
                t0 = draw(st.sampled_from([0.01, 0.05, 0.3]))
                env.append({"at": t0, "ev": "node_down", "node": n, "blackhole": draw(st.booleans())})
                env.append({"at": t0 + draw(st.sampled_from([0.1, 0.5, 2.0])), "ev": "node_up", "node": n})
        if draw(st.integers(0, 3)) == 0:
            # leader election: the partition has no leader for a while (metadata: leader -1, LEADER_NOT_AVAILABLE)
            t = draw(st.sampled_from(topics))
            at = draw(st.sampled_from([0.0, 0.01, 0.05, 0.2, 0.6]))
            env.append({"at": at, "ev": "leader_gone", "topic": t["name"], "partition": draw(st.integers(0, t["partitions"] - 1)),
                        "back_at": at + draw(st.sampled_from([0.03, 0.2, 0.8]))})
        if outage:
            # a broker is already refusing connections when the first records are sent (the very first attempt of a
            # batch ends in NodeNotReadyError) and comes back while the application keeps sending
            n = draw(st.integers(0, nodes - 1))
            t0 = draw(st.sampled_from([0.003, 0.008]))
            env = [e for e in env if e["ev"] not in ("node_down", "node_up")]
            env.append({"at": t0, "ev": "node_down", "node": n, "blackhole": draw(st.integers(0, 4)) == 0})
            env.append({"at": t0 + draw(st.sampled_from([0.03, 0.08, 0.2, 0.6])), "ev": "node_up", "node": n})
            d0 = draw(st.sampled_from([0.012, 0.02, 0.04]))
            tasks = [[["sleep", d0]] + ops for ops in tasks]
            cfg["linger_ms"] = draw(st.sampled_from([0, 0, 5]))
        start_seq = {}
        if wrap:
            for t in topics:
                for p in range(t["partitions"]):
                    start_seq["%s:%d" % (t["name"], p)] = SEQ_MAX - draw(st.integers(0, 6))
        return {
            "cfg": cfg, "cluster": {"nodes": nodes, "topics": topics, "produce_max": produce_max},
            "tasks": tasks, "faults": faults, "env": env, "start_seq": start_seq,
            "lat": draw(st.lists(st.sampled_from([0.0005, 0.001, 0.002, 0.005, 0.02]), min_size=1, max_size=5)),
            "chunks": draw(st.lists(st.sampled_from([0, 0, 1, 3, 7, 50]), min_size=1, max_size=4)),
            "rng_seed": draw(st.integers(0, 2 ** 31)),
            "debug_log": draw(st.integers(0, 7)) == 0,
        }
    return cases()


def run(case):
    """Execute the case (case["debug_log"]: with the library's DEBUG logging switched on); returns Obs."""
    from vlib.core import debug_logging
    with debug_logging(case.get("debug_log")):
        return _run(case)
