"""Reference schemas of the admin APIs (second part of the refproto tables).

Hand-written from the Kafka message definitions (clients/src/main/resources/
common/message/*.json of Kafka 2.x, as summarised in the protocol guide), for
every (api key, version) aiokafka defines outside tables_core.  Field names are
this table's own; nothing here is derived from aiokafka's SCHEMA objects.
Entry: (versions, request schema, response schema[, "flex"]).

Notes on the definitions used:
  * string/array nullability follows "nullableVersions" of the JSON definitions;
  * a flexible version ("flexibleVersions") uses compact strings/arrays and ends
    EVERY struct level (top level and each nested array element) with a tagged
    field buffer;
  * DescribeAcls/CreateAcls/DeleteAcls become flexible at v2, DeleteRecords at
    v2, AlterPartitionReassignments / ListPartitionReassignments are flexible
    from v0; CreateTopics (v5), DeleteTopics (v4), ListGroups (v3),
    DescribeGroups (v5), DescribeConfigs (v4), AlterConfigs (v2),
    CreatePartitions (v2), DeleteGroups (v2), DescribeClientQuotas (v1) become
    flexible only above the versions listed here.
  * "f64" (IEEE double, big endian) is added to the codec's fixed-width types
    at the bottom of this file: codec.py has no float type, and
    DescribeClientQuotasResponse carries one.
"""

# ---- CreateTopics (19)
_CT_TOPICS = ("topics:[name:str num_partitions:i32 replication_factor:i16 "
              "assignments:[partition_index:i32 broker_ids:[i32]] "
              "configs:[name:str value:nstr]]")
_CT_REQ_V0 = _CT_TOPICS + " timeout_ms:i32"
_CT_REQ_V1 = _CT_TOPICS + " timeout_ms:i32 validate_only:bool"
_CT_RESP_V0 = "topics:[name:str error_code:i16]"
_CT_RESP_V1 = "topics:[name:str error_code:i16 error_message:nstr]"
_CT_RESP_V2 = "throttle_time_ms:i32 topics:[name:str error_code:i16 error_message:nstr]"

# ---- DeleteTopics (20)
_DT_REQ = "topic_names:[str] timeout_ms:i32"
_DT_RESP_V0 = "responses:[name:str error_code:i16]"
_DT_RESP_V1 = "throttle_time_ms:i32 responses:[name:str error_code:i16]"

# ---- DeleteRecords (21)
_DR_REQ = "topics:[name:str partitions:[partition_index:i32 offset:i64]] timeout_ms:i32"
_DR_RESP = ("throttle_time_ms:i32 topics:[name:str partitions:[partition_index:i32 "
            "low_watermark:i64 error_code:i16]]")
_DR_REQ_V2 = ("topics:c[name:cstr partitions:c[partition_index:i32 offset:i64 _tags:tags] _tags:tags] "
              "timeout_ms:i32 _tags:tags")
_DR_RESP_V2 = ("throttle_time_ms:i32 topics:c[name:cstr partitions:c[partition_index:i32 "
               "low_watermark:i64 error_code:i16 _tags:tags] _tags:tags] _tags:tags")

# ---- ListGroups (16)
_LG_RESP_V0 = "error_code:i16 groups:[group_id:str protocol_type:str]"
_LG_RESP_V1 = "throttle_time_ms:i32 error_code:i16 groups:[group_id:str protocol_type:str]"

# ---- DescribeGroups (15)
_DG_MEMBERS = ("members:[member_id:str client_id:str client_host:str member_metadata:bytes "
               "member_assignment:bytes]")
_DG_GROUP = ("error_code:i16 group_id:str group_state:str protocol_type:str protocol_data:str "
             + _DG_MEMBERS)
_DG_RESP_V0 = "groups:[" + _DG_GROUP + "]"
_DG_RESP_V1 = "throttle_time_ms:i32 groups:[" + _DG_GROUP + "]"
_DG_RESP_V3 = "throttle_time_ms:i32 groups:[" + _DG_GROUP + " authorized_operations:i32]"

# ---- ACLs (29, 30, 31)
_ACL_FILTER_V0 = ("resource_type_filter:i8 resource_name_filter:nstr principal_filter:nstr "
                  "host_filter:nstr operation:i8 permission_type:i8")
_ACL_FILTER_V1 = ("resource_type_filter:i8 resource_name_filter:nstr pattern_type_filter:i8 "
                  "principal_filter:nstr host_filter:nstr operation:i8 permission_type:i8")
_ACL_FILTER_V2 = ("resource_type_filter:i8 resource_name_filter:cnstr pattern_type_filter:i8 "
                  "principal_filter:cnstr host_filter:cnstr operation:i8 permission_type:i8")
_ACL_ENTRY = "principal:str host:str operation:i8 permission_type:i8"
_DA_RESP_V0 = ("throttle_time_ms:i32 error_code:i16 error_message:nstr "
               "resources:[resource_type:i8 resource_name:str acls:[" + _ACL_ENTRY + "]]")
_DA_RESP_V1 = ("throttle_time_ms:i32 error_code:i16 error_message:nstr "
               "resources:[resource_type:i8 resource_name:str pattern_type:i8 acls:[" + _ACL_ENTRY + "]]")
_DA_RESP_V2 = ("throttle_time_ms:i32 error_code:i16 error_message:cnstr "
               "resources:c[resource_type:i8 resource_name:cstr pattern_type:i8 "
               "acls:c[principal:cstr host:cstr operation:i8 permission_type:i8 _tags:tags] _tags:tags] "
               "_tags:tags")

_CA_REQ_V0 = ("creations:[resource_type:i8 resource_name:str principal:str host:str "
              "operation:i8 permission_type:i8]")
_CA_REQ_V1 = ("creations:[resource_type:i8 resource_name:str resource_pattern_type:i8 principal:str "
              "host:str operation:i8 permission_type:i8]")
_CA_RESP = "throttle_time_ms:i32 results:[error_code:i16 error_message:nstr]"

_DLA_MATCH_V0 = ("error_code:i16 error_message:nstr resource_type:i8 resource_name:str "
                 "principal:str host:str operation:i8 permission_type:i8")
_DLA_MATCH_V1 = ("error_code:i16 error_message:nstr resource_type:i8 resource_name:str pattern_type:i8 "
                 "principal:str host:str operation:i8 permission_type:i8")
_DLA_RESP_V0 = ("throttle_time_ms:i32 filter_results:[error_code:i16 error_message:nstr "
                "matching_acls:[" + _DLA_MATCH_V0 + "]]")
_DLA_RESP_V1 = ("throttle_time_ms:i32 filter_results:[error_code:i16 error_message:nstr "
                "matching_acls:[" + _DLA_MATCH_V1 + "]]")

# ---- DescribeConfigs (32) / AlterConfigs (33)
_DC_RES = "resources:[resource_type:i8 resource_name:str configuration_keys:?[str]]"
_DC_RESULT_HEAD = "error_code:i16 error_message:nstr resource_type:i8 resource_name:str "
_DC_RESP_V0 = ("throttle_time_ms:i32 results:[" + _DC_RESULT_HEAD +
               "configs:[name:str value:nstr read_only:bool is_default:bool is_sensitive:bool]]")
_DC_RESP_V1 = ("throttle_time_ms:i32 results:[" + _DC_RESULT_HEAD +
               "configs:[name:str value:nstr read_only:bool config_source:i8 is_sensitive:bool "
               "synonyms:[name:str value:nstr source:i8]]]")
_AC_REQ = "resources:[resource_type:i8 resource_name:str configs:[name:str value:nstr]] validate_only:bool"
_AC_RESP = ("throttle_time_ms:i32 responses:[error_code:i16 error_message:nstr resource_type:i8 "
            "resource_name:str]")

# ---- CreatePartitions (37)
_CP_REQ = ("topics:[name:str count:i32 assignments:?[broker_ids:[i32]]] timeout_ms:i32 "
           "validate_only:bool")
_CP_RESP = "throttle_time_ms:i32 results:[name:str error_code:i16 error_message:nstr]"

# ---- DeleteGroups (42)
_DGR_REQ = "groups_names:[str]"
_DGR_RESP = "throttle_time_ms:i32 results:[group_id:str error_code:i16]"

# ---- DescribeClientQuotas (48)
_DQ_REQ = "components:[entity_type:str match_type:i8 match:nstr] strict:bool"
_DQ_RESP = ("throttle_time_ms:i32 error_code:i16 error_message:nstr "
            "entries:?[entity:[entity_type:str entity_name:nstr] values:[key:str value:f64]]")

# ---- AlterPartitionReassignments (45) / ListPartitionReassignments (46): flexible from v0
_APR_REQ = ("timeout_ms:i32 topics:c[name:cstr partitions:c[partition_index:i32 replicas:?c[i32] "
            "_tags:tags] _tags:tags] _tags:tags")
_APR_RESP = ("throttle_time_ms:i32 error_code:i16 error_message:cnstr "
             "responses:c[name:cstr partitions:c[partition_index:i32 error_code:i16 "
             "error_message:cnstr _tags:tags] _tags:tags] _tags:tags")
_LPR_REQ = "timeout_ms:i32 topics:?c[name:cstr partition_indexes:c[i32] _tags:tags] _tags:tags"
_LPR_RESP = ("throttle_time_ms:i32 error_code:i16 error_message:cnstr "
             "topics:c[name:cstr partitions:c[partition_index:i32 replicas:c[i32] "
             "adding_replicas:c[i32] removing_replicas:c[i32] _tags:tags] _tags:tags] _tags:tags")

APIS = {
    15: ("DescribeGroups", [
        ((0,), "groups:[str]", _DG_RESP_V0),
        ((1, 2), "groups:[str]", _DG_RESP_V1),
        ((3,), "groups:[str] include_authorized_operations:bool", _DG_RESP_V3),
    ]),
    16: ("ListGroups", [
        ((0,), "", _LG_RESP_V0),
        ((1, 2), "", _LG_RESP_V1),
    ]),
    19: ("CreateTopics", [
        ((0,), _CT_REQ_V0, _CT_RESP_V0),
        ((1,), _CT_REQ_V1, _CT_RESP_V1),
        ((2, 3), _CT_REQ_V1, _CT_RESP_V2),
    ]),
    20: ("DeleteTopics", [
        ((0,), _DT_REQ, _DT_RESP_V0),
        ((1, 2, 3), _DT_REQ, _DT_RESP_V1),
    ]),
    21: ("DeleteRecords", [
        ((0, 1), _DR_REQ, _DR_RESP),
        ((2,), _DR_REQ_V2, _DR_RESP_V2, "flex"),
    ]),
    29: ("DescribeAcls", [
        ((0,), _ACL_FILTER_V0, _DA_RESP_V0),
        ((1,), _ACL_FILTER_V1, _DA_RESP_V1),
        ((2,), _ACL_FILTER_V2 + " _tags:tags", _DA_RESP_V2, "flex"),
    ]),
    30: ("CreateAcls", [
        ((0,), _CA_REQ_V0, _CA_RESP),
        ((1,), _CA_REQ_V1, _CA_RESP),
    ]),
    31: ("DeleteAcls", [
        ((0,), "filters:[" + _ACL_FILTER_V0 + "]", _DLA_RESP_V0),
        ((1,), "filters:[" + _ACL_FILTER_V1 + "]", _DLA_RESP_V1),
    ]),
    32: ("DescribeConfigs", [
        ((0,), _DC_RES, _DC_RESP_V0),
        ((1, 2), _DC_RES + " include_synonyms:bool", _DC_RESP_V1),
    ]),
    33: ("AlterConfigs", [
        ((0, 1), _AC_REQ, _AC_RESP),
    ]),
    37: ("CreatePartitions", [
        ((0, 1), _CP_REQ, _CP_RESP),
    ]),
    42: ("DeleteGroups", [
        ((0, 1), _DGR_REQ, _DGR_RESP),
    ]),
    45: ("AlterPartitionReassignments", [
        ((0,), _APR_REQ, _APR_RESP, "flex"),
    ]),
    46: ("ListPartitionReassignments", [
        ((0,), _LPR_REQ, _LPR_RESP, "flex"),
    ]),
    48: ("DescribeClientQuotas", [
        ((0,), _DQ_REQ, _DQ_RESP),
    ]),
}

# codec.py has no floating point type; DescribeClientQuotasResponse needs one.
# (Placed after APIS so that either import order of codec / tables_admin works.)
from . import codec as _codec  # noqa: E402

_codec._FIXED.setdefault("f64", ">d")
