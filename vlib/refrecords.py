"""Independent reference codec for Kafka message formats v0, v1 and v2.

Written from the format definitions (Kafka protocol guide "Record Batch" /
"Message sets"), not from aiokafka: own zig-zag varints, own CRC-32C (table
generated from the bit-wise definition, self-checked against RFC 3720 vectors),
zlib CRC-32, compression through zlib and the raw cramjam primitives with own
xerial framing.  Used as oracle (C09), seed generator (C10) and as the log
builder / independent reader of the simulated brokers.
"""
import struct
import zlib

try:
    import cramjam
except ImportError:  # pragma: no cover
    cramjam = None

CODEC_NONE, CODEC_GZIP, CODEC_SNAPPY, CODEC_LZ4, CODEC_ZSTD = 0, 1, 2, 3, 4
CODEC_NAMES = {0: None, 1: "gzip", 2: "snappy", 3: "lz4", 4: "zstd"}


class RefDecodeError(Exception):
    pass


# ---------------------------------------------------------------- CRCs
def _make_crc32c_table():
    poly = 0x82F63B78  # reflected Castagnoli
    t = []
    for n in range(256):
        c = n
        for _ in range(8):
            c = (c >> 1) ^ poly if c & 1 else c >> 1
        t.append(c)
    return t


_CRC32C_TABLE = _make_crc32c_table()


def crc32c(data):
    c = 0xFFFFFFFF
    t = _CRC32C_TABLE
    for b in bytes(data):
        c = t[(c ^ b) & 0xFF] ^ (c >> 8)
    return c ^ 0xFFFFFFFF


assert crc32c(b"\x00" * 32) == 0x8A9136AA
assert crc32c(b"\xff" * 32) == 0x62A8AB43
assert crc32c(bytes(range(32))) == 0x46DD794E
assert crc32c(b"123456789") == 0xE3069283


def crc32(data):
    return zlib.crc32(bytes(data)) & 0xFFFFFFFF


# ---------------------------------------------------------------- varints
def enc_uvarint(n):
    assert n >= 0
    out = bytearray()
    while True:
        b = n & 0x7F
        n >>= 7
        if n:
            out.append(b | 0x80)
        else:
            out.append(b)
            return bytes(out)


def enc_varint(v):
    """zig-zag, for int32 and int64 alike (v within int64)."""
    return enc_uvarint(((v << 1) ^ (v >> 63)) & 0xFFFFFFFFFFFFFFFF)


def dec_uvarint(buf, pos):
    shift = 0
    res = 0
    while True:
        if pos >= len(buf):
            raise RefDecodeError("varint runs past buffer")
        b = buf[pos]
        pos += 1
        res |= (b & 0x7F) << shift
        if not b & 0x80:
            return res, pos
        shift += 7
        if shift > 63:
            raise RefDecodeError("varint too long")


def dec_varint(buf, pos):
    u, pos = dec_uvarint(buf, pos)
    return (u >> 1) ^ -(u & 1), pos


# ---------------------------------------------------------------- compression
def compress(codec, data, magic=2):
    data = bytes(data)
    if codec == CODEC_NONE:
        return data
    if codec == CODEC_GZIP:
        c = zlib.compressobj(6, zlib.DEFLATED, 31)
        return c.compress(data) + c.flush()
    if codec == CODEC_SNAPPY:
        # xerial framing: magic header then [int32 len][raw snappy block]...
        out = bytearray(b"\x82SNAPPY\x00" + struct.pack(">ii", 1, 1))
        step = 32 * 1024
        for i in range(0, len(data), step) if data else [0]:
            blk = bytes(cramjam.snappy.compress_raw(data[i:i + step]))
            out += struct.pack(">i", len(blk)) + blk
        return bytes(out)
    if codec == CODEC_LZ4:
        return bytes(cramjam.lz4.compress(data))
    if codec == CODEC_ZSTD:
        return bytes(cramjam.zstd.compress(data))
    raise ValueError(codec)


def decompress(codec, data):
    data = bytes(data)
    try:
        if codec == CODEC_NONE:
            return data
        if codec == CODEC_GZIP:
            return zlib.decompress(data, 47)
        if codec == CODEC_SNAPPY:
            if data[:8] == b"\x82SNAPPY\x00":
                pos = 16
                out = bytearray()
                while pos < len(data):
                    (n,) = struct.unpack_from(">i", data, pos)
                    pos += 4
                    out += bytes(cramjam.snappy.decompress_raw(data[pos:pos + n]))
                    pos += n
                return bytes(out)
            return bytes(cramjam.snappy.decompress_raw(data))
        if codec == CODEC_LZ4:
            return bytes(cramjam.lz4.decompress(data))
        if codec == CODEC_ZSTD:
            return bytes(cramjam.zstd.decompress(data))
    except RefDecodeError:
        raise
    except Exception as e:
        raise RefDecodeError("decompression failed: %r" % (e,))
    raise RefDecodeError("unknown codec %d" % codec)


# ---------------------------------------------------------------- v2
V2_HEADER = struct.Struct(">qiibIhiqqqhii")   # 61 bytes
assert V2_HEADER.size == 61
V2_ATTR_OFFSET = 21


def enc_v2_record(offset_delta, ts_delta, key, value, headers, attrs=0):
    body = bytearray()
    body.append(attrs & 0xFF)
    body += enc_varint(ts_delta)
    body += enc_varint(offset_delta)
    if key is None:
        body += enc_varint(-1)
    else:
        body += enc_varint(len(key)) + bytes(key)
    if value is None:
        body += enc_varint(-1)
    else:
        body += enc_varint(len(value)) + bytes(value)
    body += enc_varint(len(headers))
    for hk, hv in headers:
        hkb = hk.encode("utf-8") if isinstance(hk, str) else bytes(hk)
        body += enc_varint(len(hkb)) + hkb
        if hv is None:
            body += enc_varint(-1)
        else:
            body += enc_varint(len(hv)) + bytes(hv)
    return enc_varint(len(body)) + bytes(body)


def encode_v2(records, base_offset=0, codec=0, ts_type=0, transactional=False, control=False,
              pid=-1, epoch=-1, base_seq=-1, leader_epoch=-1, first_ts=None, max_ts=None,
              last_offset_delta=None, attrs_extra=0):
    """records: list of dicts {offset_delta?, timestamp, key, value, headers}.

    offset_delta defaults to the index.  first_ts defaults to the first record's
    timestamp (or -1 without records), max_ts to the maximum timestamp.
    """
    recs = []
    for i, r in enumerate(records):
        recs.append((r.get("offset_delta", i), r["timestamp"], r.get("key"), r.get("value"),
                     [tuple(h) for h in (r.get("headers") or [])]))
    if first_ts is None:
        first_ts = recs[0][1] if recs else -1
    if max_ts is None:
        max_ts = max((r[1] for r in recs), default=-1)
    if last_offset_delta is None:
        last_offset_delta = recs[-1][0] if recs else 0
    payload = bytearray()
    for od, ts, k, v, hs in recs:
        payload += enc_v2_record(od, ts - first_ts, k, v, hs)
    payload = compress(codec, payload)
    attrs = (codec & 7) | (0x08 if ts_type else 0) | (0x10 if transactional else 0) | \
        (0x20 if control else 0) | attrs_extra
    tail = struct.pack(">hiqqqhii", attrs, last_offset_delta, first_ts, max_ts, pid, epoch,
                       base_seq, len(recs)) + bytes(payload)
    crc = crc32c(tail)
    length = 4 + 1 + 4 + len(tail)
    return struct.pack(">qiibI", base_offset, length, leader_epoch, 2, crc) + tail


def control_record_v2(marker_type, coordinator_epoch=0):
    """key = version(int16)=0,type(int16); value = version(int16)=0, coordinator epoch(int32)."""
    return struct.pack(">hh", 0, marker_type), struct.pack(">hi", 0, coordinator_epoch)


def encode_control_batch(base_offset, pid, epoch, commit, timestamp=0, coordinator_epoch=0, key_extra=b"", attrs_extra=0):
    """key_extra: bytes appended to the marker key (a newer key version may carry more fields; readers look at
    version and type only)"""
    k, v = control_record_v2(1 if commit else 0, coordinator_epoch)
    k = k + bytes(key_extra)
    return encode_v2([{"timestamp": timestamp, "key": k, "value": v, "headers": []}],
                     base_offset=base_offset, transactional=True, control=True, pid=pid,
                     epoch=epoch, base_seq=-1, attrs_extra=attrs_extra)


def decode_v2(buf):
    buf = bytes(buf)
    if len(buf) < V2_HEADER.size:
        raise RefDecodeError("v2 batch shorter than header")
    (base_offset, length, leader_epoch, magic, crc, attrs, last_offset_delta, first_ts, max_ts,
     pid, epoch, base_seq, count) = V2_HEADER.unpack_from(buf, 0)
    if magic != 2:
        raise RefDecodeError("magic %d" % magic)
    if length + 12 != len(buf):
        raise RefDecodeError("length field %d does not match buffer %d" % (length, len(buf)))
    b = {"magic": 2, "base_offset": base_offset, "length": length, "leader_epoch": leader_epoch,
         "crc": crc, "crc_ok": crc32c(buf[V2_ATTR_OFFSET:]) == crc, "attrs": attrs,
         "codec": attrs & 7, "ts_type": (attrs >> 3) & 1, "transactional": bool(attrs & 0x10),
         "control": bool(attrs & 0x20), "last_offset_delta": last_offset_delta,
         "first_ts": first_ts, "max_ts": max_ts, "pid": pid, "epoch": epoch, "base_seq": base_seq,
         "count": count, "size": len(buf)}
    payload = decompress(attrs & 7, buf[V2_HEADER.size:])
    pos = 0
    recs = []
    if count < 0:
        raise RefDecodeError("negative record count")
    for _ in range(count):
        rlen, pos = dec_varint(payload, pos)
        if rlen < 0:
            raise RefDecodeError("negative record length")
        end = pos + rlen
        if end > len(payload):
            raise RefDecodeError("record runs past payload")
        rattrs = payload[pos]
        pos += 1
        tsd, pos = dec_varint(payload, pos)
        od, pos = dec_varint(payload, pos)
        kl, pos = dec_varint(payload, pos)
        key = None
        if kl >= 0:
            key = payload[pos:pos + kl]
            if len(key) != kl:
                raise RefDecodeError("key runs past payload")
            pos += kl
        vl, pos = dec_varint(payload, pos)
        value = None
        if vl >= 0:
            value = payload[pos:pos + vl]
            if len(value) != vl:
                raise RefDecodeError("value runs past payload")
            pos += vl
        nh, pos = dec_varint(payload, pos)
        if nh < 0:
            raise RefDecodeError("negative header count")
        hs = []
        for _ in range(nh):
            hkl, pos = dec_varint(payload, pos)
            if hkl < 0:
                raise RefDecodeError("null header key")
            hk = payload[pos:pos + hkl]
            pos += hkl
            hvl, pos = dec_varint(payload, pos)
            hv = None
            if hvl >= 0:
                hv = payload[pos:pos + hvl]
                pos += hvl
            hs.append((hk.decode("utf-8"), hv))
        if pos != end:
            raise RefDecodeError("record length mismatch (pos %d end %d)" % (pos, end))
        ts = max_ts if b["ts_type"] == 1 else first_ts + tsd
        recs.append({"offset": base_offset + od, "offset_delta": od, "timestamp": ts,
                     "ts_delta": tsd, "ts_type": b["ts_type"], "key": key, "value": value,
                     "headers": hs, "attrs": rattrs})
    if pos != len(payload):
        raise RefDecodeError("trailing bytes after last record")
    b["records"] = recs
    b["last_offset"] = base_offset + last_offset_delta
    return b


# ---------------------------------------------------------------- v0 / v1
def enc_legacy_message(magic, offset, key, value, timestamp=None, attrs=0):
    body = struct.pack(">bb", magic, attrs)
    if magic >= 1:
        body += struct.pack(">q", -1 if timestamp is None else timestamp)
    body += struct.pack(">i", -1) if key is None else struct.pack(">i", len(key)) + bytes(key)
    body += struct.pack(">i", -1) if value is None else struct.pack(">i", len(value)) + bytes(value)
    crc = crc32(body)
    msg = struct.pack(">I", crc) + body
    return struct.pack(">qi", offset, len(msg)) + msg


def encode_legacy(magic, records, codec=0, ts_type=0, wrapper_ts=None):
    """records: list of dicts {offset, timestamp, key, value}; absolute offsets.

    Uncompressed: concatenation of messages.  Compressed: ONE wrapper message
    whose offset is the last inner offset; inner offsets are relative (0..n-1
    distances from the first) for magic 1 and absolute for magic 0; wrapper
    timestamp = max inner timestamp (CreateTime) or the given append time.
    """
    if codec == 0:
        return b"".join(enc_legacy_message(magic, r["offset"], r.get("key"), r.get("value"),
                                           r.get("timestamp"), 0x08 if (ts_type and magic) else 0)
                        for r in records)
    assert records
    first = records[0]["offset"]
    inner = bytearray()
    for r in records:
        off = r["offset"] - first if magic >= 1 else r["offset"]
        inner += enc_legacy_message(magic, off, r.get("key"), r.get("value"), r.get("timestamp"), 0)
    if wrapper_ts is None:
        wrapper_ts = max((r.get("timestamp") if r.get("timestamp") is not None else -1)
                         for r in records)
    attrs = (codec & 7) | (0x08 if (ts_type and magic) else 0)
    return enc_legacy_message(magic, records[-1]["offset"], None, compress(codec, inner),
                              wrapper_ts, attrs)


def _dec_legacy_message(buf, pos):
    if pos + 12 > len(buf):
        raise RefDecodeError("message header past buffer")
    offset, size = struct.unpack_from(">qi", buf, pos)
    if size < 14 or pos + 12 + size > len(buf):
        raise RefDecodeError("bad message size %d" % size)
    body = buf[pos + 12:pos + 12 + size]
    (crc,) = struct.unpack_from(">I", body, 0)
    magic, attrs = struct.unpack_from(">bb", body, 4)
    p = 6
    ts = None
    if magic == 1:
        (ts,) = struct.unpack_from(">q", body, p)
        p += 8
    elif magic != 0:
        raise RefDecodeError("legacy magic %d" % magic)
    if p + 4 > len(body):
        raise RefDecodeError("key length past message")
    (kl,) = struct.unpack_from(">i", body, p)
    p += 4
    key = None
    if kl >= 0:
        key = body[p:p + kl]
        if len(key) != kl:
            raise RefDecodeError("key past message")
        p += kl
    elif kl != -1:
        raise RefDecodeError("negative key length")
    if p + 4 > len(body):
        raise RefDecodeError("value length past message")
    (vl,) = struct.unpack_from(">i", body, p)
    p += 4
    value = None
    if vl >= 0:
        value = body[p:p + vl]
        if len(value) != vl:
            raise RefDecodeError("value past message")
        p += vl
    elif vl != -1:
        raise RefDecodeError("negative value length")
    if p != len(body):
        raise RefDecodeError("trailing bytes in message")
    return {"offset": offset, "size": size, "crc": crc, "crc_ok": crc32(body[4:]) == crc,
            "magic": magic, "attrs": attrs, "timestamp": ts, "key": key, "value": value}, pos + 12 + size


def decode_legacy_message(buf):
    """One top-level legacy message (possibly a compressed wrapper) -> batch dict."""
    buf = bytes(buf)
    m, end = _dec_legacy_message(buf, 0)
    if end != len(buf):
        raise RefDecodeError("slice is not exactly one message")
    codec = m["attrs"] & 7
    ts_type = (m["attrs"] >> 3) & 1 if m["magic"] == 1 else None
    b = {"magic": m["magic"], "base_offset": m["offset"], "crc": m["crc"], "crc_ok": m["crc_ok"],
         "attrs": m["attrs"], "codec": codec, "ts_type": ts_type, "size": len(buf),
         "transactional": False, "control": False, "pid": -1}
    if codec == 0:
        b["records"] = [{"offset": m["offset"], "timestamp": m["timestamp"], "ts_type": ts_type,
                         "key": m["key"], "value": m["value"], "headers": []}]
        b["last_offset"] = m["offset"]
        return b
    if m["value"] is None:
        raise RefDecodeError("compressed wrapper with null value")
    inner = decompress(codec, m["value"])
    pos = 0
    msgs = []
    while pos < len(inner):
        im, pos = _dec_legacy_message(inner, pos)
        if im["attrs"] & 7:
            raise RefDecodeError("nested compression")
        msgs.append(im)
    if not msgs:
        raise RefDecodeError("empty wrapper")
    recs = []
    if m["magic"] == 1:
        base = m["offset"] - msgs[-1]["offset"]
    else:
        base = 0
    for im in msgs:
        ts = im["timestamp"]
        if m["magic"] == 1 and ts_type == 1:
            ts = m["timestamp"]
        recs.append({"offset": base + im["offset"], "timestamp": ts, "ts_type": ts_type,
                     "key": im["key"], "value": im["value"], "headers": [],
                     "crc_ok": im["crc_ok"]})
    b["records"] = recs
    b["last_offset"] = m["offset"]
    b["wrapper_timestamp"] = m["timestamp"]
    return b


# ---------------------------------------------------------------- buffers
def split_batches(buf):
    """Split a fetch-response style buffer into top-level entries.

    Returns (list of (magic, bytes), trailing_partial_bytes)."""
    buf = bytes(buf)
    pos = 0
    out = []
    while True:
        if len(buf) - pos < 12:
            break
        (length,) = struct.unpack_from(">i", buf, pos + 8)
        end = pos + 12 + length
        if length < 0 or end > len(buf):
            break
        if length < 5:
            raise RefDecodeError("entry too small")
        magic = buf[pos + 16]
        out.append((magic, buf[pos:end]))
        pos = end
    return out, buf[pos:]


def decode_buffer(buf):
    """-> (list of batch dicts, trailing partial bytes)."""
    entries, rest = split_batches(buf)
    res = []
    for magic, b in entries:
        if magic >= 2:
            res.append(decode_v2(b))
        else:
            res.append(decode_legacy_message(b))
    return res, rest
