#!/venv/bin/python
"""Campaign inventory for DESIGN.md 8.8, from evidence files.

usage: tools/gen_inventory.py <quick evidence dir> [<thorough evidence root>]
  quick dir holds C01.json …; thorough root holds C01/ev/C01.json … (layout of the scratch runs)
Prints a markdown table: property, campaign, kind, evaluations per tier, exhaustive?, wall-capped?
"""
import json
import os
import sys


def load(path):
    try:
        return json.load(open(path))
    except (OSError, ValueError):
        return None


def main():
    qdir = sys.argv[1]
    troot = sys.argv[2] if len(sys.argv) > 2 else None
    print("| property | campaign | kind | quick: cases | thorough: cases | notes |")
    print("|---|---|---|---|---|---|")
    for i in range(1, 20):
        pid = "C%02d" % i
        q = load(os.path.join(qdir, pid + ".json"))
        t = load(os.path.join(troot, pid, "ev", pid + ".json")) if troot else None
        qc = (q or {}).get("coverage", {}).get("campaigns", {})
        tc = (t or {}).get("coverage", {}).get("campaigns", {})
        names = list(qc) + [n for n in tc if n not in qc]
        for n in sorted(names):
            a, b = qc.get(n), tc.get(n)
            kind = (a or b).get("kind")
            notes = []
            for tag, c in (("quick", a), ("thorough", b)):
                if c and c.get("exhaustive"):
                    notes.append("%s: whole space" % tag)
                if c and c.get("wall_capped"):
                    notes.append("%s: stopped by its time budget (inconclusive part not counted)" % tag)
            print("| %s | %s | %s | %s | %s | %s |" % (
                pid, n, kind, a["evaluations"] if a else "–", b["evaluations"] if b else "–", "; ".join(notes)))
        for tag, e in (("quick", q), ("thorough", t)):
            if e:
                cov = e["coverage"]
                n = cov.get("cases_generated", cov.get("evaluations", ""))
                print("| %s | *total %s* | | %s | %s | distinct non-trivial %s, regression replays %s, wall %ss |" % (
                    pid, tag, n if tag == "quick" else "", n if tag == "thorough" else "",
                    cov.get("nontrivial_cases", cov.get("distinct_nontrivial", "")),
                    cov.get("regression_replays", ""), e.get("wall_s")))


main()
