"""Simulated Kafka cluster: brokers, partition logs, dispatch, fault plan, arrival log.

Driven only by request frames (parsed with the independent refproto tables)
and virtual time.  Rules follow Kafka's documented broker behaviour; the
oracles of the property modules assert only what the properties state.
"""
import struct

from .. import refproto as RP
from .. import refrecords as RR
from ..simloop import EPOCH

# error codes
NONE = 0
OFFSET_OUT_OF_RANGE = 1
CORRUPT_MESSAGE = 2
UNKNOWN_TOPIC_OR_PARTITION = 3
LEADER_NOT_AVAILABLE = 5
NOT_LEADER = 6
REQUEST_TIMED_OUT = 7
COORDINATOR_LOAD_IN_PROGRESS = 14
COORDINATOR_NOT_AVAILABLE = 15
NOT_COORDINATOR = 16
NOT_ENOUGH_REPLICAS = 19
NOT_ENOUGH_REPLICAS_AFTER_APPEND = 20
ILLEGAL_GENERATION = 22
INCONSISTENT_GROUP_PROTOCOL = 23
UNKNOWN_MEMBER_ID = 25
REBALANCE_IN_PROGRESS = 27
TOPIC_AUTHORIZATION_FAILED = 29
GROUP_AUTHORIZATION_FAILED = 30
UNSUPPORTED_VERSION = 35
OUT_OF_ORDER_SEQUENCE = 45
DUPLICATE_SEQUENCE = 46
INVALID_PRODUCER_EPOCH = 47
INVALID_TXN_STATE = 48
INVALID_PRODUCER_ID_MAPPING = 49
CONCURRENT_TRANSACTIONS = 51
TRANSACTIONAL_ID_AUTHORIZATION_FAILED = 53
MEMBER_ID_REQUIRED = 79

API = {"produce": 0, "fetch": 1, "list_offsets": 2, "metadata": 3, "offset_commit": 8,
       "offset_fetch": 9, "find_coordinator": 10, "join": 11, "heartbeat": 12, "leave": 13,
       "sync": 14, "sasl_handshake": 17, "api_versions": 18, "init_pid": 22, "add_partitions": 24,
       "add_offsets": 25, "end_txn": 26, "txn_offset_commit": 28}
API_BY_KEY = {v: k for k, v in API.items()}

# what the client library can speak at most (personality "latest")
LATEST = {0: (0, 7), 1: (0, 11), 2: (0, 3), 3: (0, 5), 8: (0, 3), 9: (0, 3), 10: (0, 1),
          11: (0, 5), 12: (0, 1), 13: (0, 1), 14: (0, 3), 17: (0, 1), 18: (0, 2), 22: (0, 0),
          24: (0, 0), 25: (0, 0), 26: (0, 0), 28: (0, 0), 36: (0, 1)}

SEQ_MOD = 2 ** 31


def seq_add(seq, n):
    """Kafka's sequence arithmetic: wraps from 2^31-1 to 0."""
    return (seq + n) % SEQ_MOD


class StoredBatch:
    __slots__ = ("raw", "base_offset", "last_offset", "magic", "pid", "epoch", "base_seq", "count",
                 "transactional", "control", "commit", "size", "max_ts", "append_ts", "origin")

    def __init__(self, raw, info, origin=None):
        self.raw = raw
        self.base_offset = info["base_offset"]
        self.last_offset = info["last_offset"]
        self.magic = info["magic"]
        self.pid = info.get("pid", -1)
        self.epoch = info.get("epoch", -1)
        self.base_seq = info.get("base_seq", -1)
        self.count = len(info["records"])
        self.transactional = info.get("transactional", False)
        self.control = info.get("control", False)
        self.commit = None
        if self.control and info["records"]:
            k = info["records"][0]["key"]
            if k is not None and len(k) >= 4:
                self.commit = struct.unpack(">h", k[2:4])[0] == 1
        self.size = len(raw)
        self.max_ts = info.get("max_ts", -1)
        self.append_ts = None
        self.origin = origin


class ProducerState:
    __slots__ = ("epoch", "last_seq", "recent")

    def __init__(self, epoch, last_seq=-1):
        self.epoch = epoch
        self.last_seq = last_seq      # sequence of the last appended record, -1 = none yet
        self.recent = []              # last 5 (base_seq, count, base_offset, log_append_ts)


class PartitionLog:
    def __init__(self, topic, partition, leader, ts_type=0):
        self.topic = topic
        self.partition = partition
        self.ever_led = set()         # every node a client may (still) believe to be this partition's leader
        self.leader = leader
        self.prev_leader = leader
        self.ts_type = ts_type        # 0 CreateTime, 1 LogAppendTime
        self.batches = []
        self.log_start = 0
        self.next_offset = 0
        self.hw_lag = 0               # hw = next_offset - hw_lag (>= log_start)
        self.producers = {}
        self.open_txns = {}           # pid -> first offset
        self.aborted = []             # (pid, first_offset, marker_offset)
        self.waiters = []             # callbacks woken on append

    @property
    def leader(self):
        return self._leader

    @leader.setter
    def leader(self, node_id):
        self._leader = node_id
        if node_id is not None and node_id >= 0:
            self.ever_led.add(node_id)

    @property
    def hw(self):
        return max(self.log_start, self.next_offset - self.hw_lag)

    @property
    def lso(self):
        if self.open_txns:
            return min(min(self.open_txns.values()), self.hw)
        return self.hw

    def _wake(self):
        ws, self.waiters = self.waiters, []
        for w in ws:
            w()

    def install(self, raw, origin=None):
        """Install a pre-built batch (reference-encoded, offsets already absolute)."""
        if raw[16] >= 2:
            info = RR.decode_v2(raw)
        else:
            info = RR.decode_legacy_message(raw)
        sb = StoredBatch(bytes(raw), info, origin)
        if sb.magic < 2:
            sb.base_offset = info["records"][0]["offset"]
        assert sb.base_offset >= self.next_offset, (sb.base_offset, self.next_offset)
        self.batches.append(sb)
        self.next_offset = sb.last_offset + 1
        self._track_txn(sb)
        self._wake()
        return sb

    def _track_txn(self, sb):
        if sb.magic < 2 or sb.pid < 0:
            return
        if sb.control:
            first = self.open_txns.pop(sb.pid, None)
            if sb.commit is False and first is not None:
                self.aborted.append((sb.pid, first, sb.base_offset))
            elif sb.commit is False and first is None:
                # solitary abort marker (data compacted away)
                pass
        elif sb.transactional:
            self.open_txns.setdefault(sb.pid, sb.base_offset)

    def append_produced(self, raw, info, now_ms):
        """Append a client-produced v2 batch: assign offsets (and append time)."""
        base = self.next_offset
        b = bytearray(raw)
        struct.pack_into(">q", b, 0, base)
        append_ts = -1
        if self.ts_type == 1:
            attrs = info["attrs"] | 0x08
            struct.pack_into(">h", b, 21, attrs)
            struct.pack_into(">q", b, 35, now_ms)      # max timestamp
            struct.pack_into(">I", b, 17, RR.crc32c(bytes(b[21:])))
            append_ts = now_ms
        raw2 = bytes(b)
        info2 = RR.decode_v2(raw2)
        sb = StoredBatch(raw2, info2, "produced")
        sb.append_ts = append_ts
        self.batches.append(sb)
        self.next_offset = sb.last_offset + 1
        self._track_txn(sb)
        self._wake()
        return sb

    def write_marker(self, pid, epoch, commit, now_ms, coordinator_epoch=0):
        ps = self.producers.get(pid)
        if ps is None or epoch > ps.epoch:
            self.producers[pid] = ProducerState(epoch)
        raw = RR.encode_control_batch(self.next_offset, pid, epoch, commit, timestamp=now_ms,
                                      coordinator_epoch=coordinator_epoch)
        info = RR.decode_v2(raw)
        sb = StoredBatch(raw, info, "marker")
        self.batches.append(sb)
        self.next_offset = sb.last_offset + 1
        self._track_txn(sb)
        self._wake()
        return sb

    def decoded(self):
        """All stored batches decoded by the reference codec."""
        out = []
        for sb in self.batches:
            out.append(RR.decode_v2(sb.raw) if sb.magic >= 2 else RR.decode_legacy_message(sb.raw))
        return out


class Node:
    def __init__(self, node_id, host, port):
        self.node_id = node_id
        self.host = host
        self.port = port
        self.up = True
        self.blackhole = False
        self.conns = []


class Fault:
    """One directive of the fault plan."""

    def __init__(self, d):
        self.sel = d["sel"]
        self.k = int(d.get("k", 0))
        self.node = d.get("node")
        self.act = d["act"]
        self.code = int(d.get("code", 0))
        self.delay = float(d.get("delay", 0.0))
        self.fired = False
        self.seen = 0
        self.raw = d


class Arrival:
    __slots__ = ("seq", "t_written", "t", "node", "conn", "client_id", "api", "key", "ver", "corr",
                 "body", "reply", "t_reply", "t_end", "fault", "applied", "extra", "delivered")

    def __init__(self):
        self.delivered = False     # the recorded reply reached the client (connection alive until then)
        self.reply = None
        self.t_reply = None
        self.t_end = None
        self.fault = None
        self.applied = False
        self.extra = {}


class ReqCtx:
    """One request being handled; reply() may be called later (long poll, join barrier)."""

    def __init__(self, cluster, node, conn, hdr, body, arrival):
        self.cluster = cluster
        self.node = node
        self.conn = conn
        self.hdr = hdr
        self.body = body
        self.key = hdr["api_key"]
        self.ver = hdr["api_version"]
        self.arrival = arrival
        self.replied = False
        self.override = None      # fault: replace reply by error / drop / swallow
        self._out = None
        self.extra_delay = 0.0

    def reply(self, body):
        """Answer the request.  Replies leave a connection strictly in request order, as on a real
        broker (which does not even read the next request before the previous one is answered)."""
        if self.replied:
            return
        self.replied = True
        c = self.cluster
        a = self.arrival
        ov = self.override
        self._out = None
        if ov is not None:
            kind = ov[0]
            if kind == "apply_error":
                body = c.error_reply(self.key, self.ver, self.body, ov[1])
            elif kind == "apply_drop":
                self._out = ("drop",)
                c._flush(self.conn)
                return
            elif kind == "no_reply":
                # a reply is only ever lost together with everything behind it on that connection
                self._out = ("mute",)
                c._flush(self.conn)
                return
        a.reply = body
        a.t_reply = c.loop._vtime
        try:
            payload = RP.encode_response(self.key, self.ver, self.hdr["correlation_id"], body)
        except Exception as e:
            c.harness_errors.append("cannot encode reply api %d v%d: %r body=%r" % (self.key, self.ver, e, body))
            self._out = ("none",)
            c._flush(self.conn)
            return
        self._out = ("send", payload)
        c._flush(self.conn)

    def no_reply(self):
        """The request is complete and has no reply (acks=0)."""
        self.replied = True
        self._out = ("none",)
        self.cluster._flush(self.conn)


class Cluster:
    def __init__(self, loop, net, n_nodes=1, personality=None, latest=None):
        self.loop = loop
        self.net = net
        self.nodes = {}
        for i in range(n_nodes):
            n = Node(i, "broker%d" % i, 9092)
            self.nodes[i] = n
            net.listen(n.host, n.port, _NodeHandler(self, n))
        self.controller = 0
        self.versions = dict(LATEST if latest is None else latest)
        if personality:
            for k, v in personality.items():
                self.versions[int(k)] = tuple(v)
        self.topics = {}                  # name -> [PartitionLog]
        self.arrivals = []
        self.faults = []
        self.fault_log = []               # (t, fault.raw, arrival.seq)
        self.quiet = False
        self.harness_errors = []
        self.next_pid = 1000
        self.fetch_max_batches = None     # Cyclic or None: cap of batches per partition per response
        self.fetch_partial = None         # Cyclic or None: bytes of a trailing partial batch
        self.cluster_id = "sim-cluster"
        from .txn import TxnCoordinator
        from .group import GroupCoordinator
        self.txn = TxnCoordinator(self)
        self.groups = GroupCoordinator(self)
        self.txn_coord_node = 0
        self.group_coord_node = 0
        self.unknown_api = []
        self.on_arrival = None            # hook(arrival)

    # ---------------------------------------------------------- topology
    def now_ms(self):
        return int((EPOCH + self.loop._vtime) * 1000)

    def bootstrap(self):
        return ",".join("%s:%d" % (n.host, n.port) for n in self.nodes.values())

    def add_topic(self, name, n_partitions, leaders=None, ts_type=0):
        parts = []
        ids = sorted(self.nodes)
        for p in range(n_partitions):
            leader = leaders[p % len(leaders)] if leaders else ids[p % len(ids)]
            parts.append(PartitionLog(name, p, leader, ts_type))
        self.topics[name] = parts
        return parts

    def log(self, topic, partition):
        ps = self.topics.get(topic)
        if ps is None or partition < 0 or partition >= len(ps):
            return None
        return ps[partition]

    def move_leader(self, topic, partition, to):
        pl = self.log(topic, partition)
        pl.prev_leader = pl.leader
        pl.leader = to

    def node_down(self, node_id, blackhole=False, silent=False):
        """silent: the host still accepts TCP connections but the broker process never reads or answers (a
        connection that is established and then hangs in its ApiVersions/SASL handshake)."""
        n = self.nodes[node_id]
        n.up = False
        n.blackhole = blackhole or silent
        n.silent = silent
        for c in list(n.conns):
            if blackhole:
                c.blackhole()
            else:
                c.close(reset=True)
        n.conns = []

    def node_up(self, node_id):
        n = self.nodes[node_id]
        n.up = True
        n.blackhole = False
        n.silent = False

    def schedule(self, events):
        """Timed environment events: [{'at': t, 'ev': ..., ...}]"""
        for e in events:
            self.loop.call_at(float(e["at"]), self._env_event, e)

    def _env_event(self, e):
        if self.quiet:
            return
        ev = e["ev"]
        self.fault_log.append((self.loop._vtime, e, None))
        if ev == "move_leader":
            if self.log(e["topic"], e["partition"]) is not None and e["to"] in self.nodes:
                self.move_leader(e["topic"], e["partition"], e["to"])
        elif ev == "leader_gone":
            # leader election in progress: metadata reports leader -1 / LEADER_NOT_AVAILABLE until `back_at`
            pl = self.log(e["topic"], e["partition"])
            if pl is not None and pl.leader != -1:
                to = e.get("to", pl.leader)
                to = to if to in self.nodes else pl.leader
                self.move_leader(e["topic"], e["partition"], -1)
                pl.elect_to = to
                self.loop.call_at(float(e["back_at"]), self._elect, pl)
        elif ev == "node_down":
            self.node_down(e["node"], e.get("blackhole", False), e.get("silent", False))
        elif ev == "node_up":
            self.node_up(e["node"])
        elif ev == "move_txn_coord":
            self.txn_coord_node = e["to"]
        elif ev == "move_group_coord":
            self.groups.move(e["to"], e.get("keep_state", True))
        elif ev == "add_partitions":
            ps = self.topics[e["topic"]]
            ids = sorted(self.nodes)
            for _ in range(e["count"]):
                ps.append(PartitionLog(e["topic"], len(ps), ids[len(ps) % len(ids)], ps[0].ts_type))
        elif ev == "add_topic":
            self.add_topic(e["topic"], e["partitions"])
        elif ev == "call":
            e["fn"]()

    def _elect(self, pl):
        if pl.leader == -1:
            pl.prev_leader = -1
            pl.leader = pl.elect_to
            pl._wake()

    def make_quiet(self):
        """After this, no fault directive or environment event fires; nodes come back."""
        self.quiet = True
        for ps in self.topics.values():
            for pl in ps:
                self._elect(pl)
        for n in self.nodes.values():
            if not n.up:
                self.node_up(n.node_id)
        for ps in self.topics.values():
            for pl in ps:
                pl.hw_lag = 0
                pl._wake()
        self.txn.settle_all()

    # ---------------------------------------------------------- faults
    def set_faults(self, directives):
        self.faults = [Fault(d) for d in directives]

    def _match_fault(self, name, node_id):
        if self.quiet:
            return None
        hit = None
        for f in self.faults:
            if f.fired:
                continue
            if f.sel != name and f.sel != "any":
                continue
            if f.node is not None and f.node != node_id:
                continue
            if f.seen == f.k and hit is None:
                f.fired = True
                hit = f
            f.seen += 1
        return hit

    # ---------------------------------------------------------- dispatch
    def on_frame(self, node, conn, frame, t_written):
        a = Arrival()
        a.seq = len(self.arrivals)
        a.t_written = t_written
        a.t = self.loop._vtime
        a.node = node.node_id
        a.conn = conn.conn_id
        try:
            hdr, body = RP.decode_request(frame)
        except Exception as e:
            a.api = "undecodable"
            a.key = a.ver = a.corr = -1
            a.client_id = None
            a.body = {"error": repr(e), "frame": frame[:64]}
            self.arrivals.append(a)
            self.unknown_api.append(a)
            conn.close(reset=True)
            return
        a.key = hdr["api_key"]
        a.ver = hdr["api_version"]
        a.corr = hdr["correlation_id"]
        a.client_id = hdr["client_id"]
        a.api = API_BY_KEY.get(a.key, str(a.key))
        a.body = body
        self.arrivals.append(a)
        self.loop.events += 1
        ctx = ReqCtx(self, node, conn, hdr, body, a)
        if not hasattr(conn, "order"):
            conn.order = []
        conn.order.append(ctx)
        rng = self.versions.get(a.key)
        if rng is None or not (rng[0] <= a.ver <= rng[1]):
            a.extra["outside_advertised_range"] = True
        f = self._match_fault(a.api, node.node_id)
        if f is not None:
            a.fault = f.raw
            self.fault_log.append((self.loop._vtime, f.raw, a.seq))
            if f.act == "auth_topic" and a.key == 24:
                # AddPartitionsToTxn naming an unauthorized topic: nothing is added; that topic's partitions get
                # TOPIC_AUTHORIZATION_FAILED, all others OPERATION_NOT_ATTEMPTED (as the broker does)
                bad = f.raw.get("topic", "t1")
                if any(t["topic"] == bad for t in body["topics"]):
                    ctx.reply({"throttle": 0, "results": [{"topic": t["topic"], "partitions": [
                        {"partition": p, "error": 29 if t["topic"] == bad else 55} for p in t["partitions"]]}
                        for t in body["topics"]]})
                    self._post(a)
                    return
                f.fired = False          # this request does not name the topic: wait for one that does
                f.seen = f.k
                a.fault = None
                self.fault_log.pop()
            elif f.act == "error":
                ctx.reply(self.error_reply(a.key, a.ver, body, f.code))
                self._post(a)
                return
            if f.act == "drop":
                ctx.replied = True
                ctx._out = ("drop",)
                self._flush(conn)
                self._post(a)
                return
            if f.act == "swallow":
                # never applied, never answered (nor is anything behind it on this connection)
                ctx.replied = True
                ctx._out = ("mute",)
                self._flush(conn)
                self._post(a)
                return
            if f.act in ("apply_error",):
                ctx.override = ("apply_error", f.code)
            elif f.act == "apply_drop":
                ctx.override = ("apply_drop",)
            elif f.act == "no_reply":
                ctx.override = ("no_reply",)
            elif f.act == "delay":
                ctx.extra_delay = f.delay
            elif f.act == "error_first":
                # partition-level error on the first partition of the request only (Produce); the rest is served
                a.extra["error_first"] = f.code
            elif f.act == "unknown_partition":
                # OffsetFetch: the coordinator does not know one of the partitions (UNKNOWN_TOPIC_OR_PARTITION for it,
                # listed first); its siblings are answered normally
                a.extra["unknown_partition"] = (f.raw.get("topic", "t0"), int(f.raw.get("partition", 0)))
            elif f.act == "stale":
                ctx.override = None
                a.extra["stale"] = True
        a.applied = True
        h = _HANDLERS.get(a.key)
        if h is None:
            self.unknown_api.append(a)
            conn.close(reset=True)
            return
        try:
            h(self, ctx)
        except Exception as e:  # a bug in the simulator must be loud
            import traceback
            self.harness_errors.append("handler api %s v%s failed: %s" % (a.api, a.ver, traceback.format_exc()))
            conn.close(reset=True)
        self._post(a)

    def _post(self, a):
        if self.on_arrival is not None:
            self.on_arrival(a)

    def _flush(self, conn):
        order = getattr(conn, "order", None)
        if order is None:
            return
        while order and getattr(order[0], "_out", None) is not None:
            ctx = order.pop(0)
            out = ctx._out
            a = ctx.arrival
            if out[0] == "send":
                if conn.closed or getattr(conn, "muted", False):
                    continue
                conn.send_frame(out[1], delay=None if not ctx.extra_delay else ctx.extra_delay + self.net.latency())
                a.t_end = conn._s2c_t
                a.delivered = True
            elif out[0] == "drop":
                a.t_end = self.loop._vtime
                conn.close(reset=True)
            elif out[0] == "mute":
                conn.muted = True

    # ---------------------------------------------------------- error replies
    def error_reply(self, key, ver, body, code):
        T = lambda extra=None: ({"throttle": 0} if extra else {})  # noqa
        if key == 0:
            parts = lambda t: [dict({"index": p["index"], "error": code, "offset": -1},  # noqa
                                    **({"timestamp": -1} if ver >= 2 else {}),
                                    **({"log_start_offset": -1} if ver >= 5 else {}))
                               for p in t["partitions"]]
            r = {"topics": [{"name": t["name"], "partitions": parts(t)} for t in body["topics"]]}
            if ver >= 1:
                r["throttle"] = 0
            return r
        if key == 1:
            def part(p):
                d = {"partition": p["partition"], "error": code, "hw": -1, "records": b""}
                if ver >= 4:
                    d["lso"] = -1
                    d["aborted"] = None
                if ver >= 5:
                    d["log_start_offset"] = -1
                if ver >= 11:
                    d["preferred_read_replica"] = -1
                return d
            r = {"topics": [{"topic": t["topic"], "partitions": [part(p) for p in t["partitions"]]}
                            for t in body["topics"]]}
            if ver >= 1:
                r["throttle"] = 0
            if ver >= 7:
                r["error"] = 0
                r["session_id"] = 0
            return r
        if key == 2:
            def part(p):
                if ver == 0:
                    return {"partition": p["partition"], "error": code, "offsets": []}
                return {"partition": p["partition"], "error": code, "timestamp": -1, "offset": -1}
            r = {"topics": [{"topic": t["topic"], "partitions": [part(p) for p in t["partitions"]]}
                            for t in body["topics"]]}
            if ver >= 2:
                r["throttle"] = 0
            return r
        if key == 3:
            r = self.metadata_body(ver, body.get("topics"), topic_error=code)
            return r
        if key in (8, 28):
            r = {"topics": [{"topic": t["topic"], "partitions": [{"partition": p["partition"], "error": code}
                                                                 for p in t["partitions"]]}
                            for t in body["topics"]]}
            if key == 28 or ver >= 3:
                r["throttle"] = 0
            return r
        if key == 9:
            # Kafka (OffsetFetchRequest.getErrorResponse): up to v1 a group-level error is repeated on every
            # requested partition; from v2 on it is carried only by the top-level field and no partition is listed
            if ver >= 2:
                r = {"topics": [], "error": code}
            else:
                r = {"topics": [{"topic": t["topic"], "partitions": [
                    {"partition": p, "offset": -1, "metadata": "", "error": code} for p in t["partitions"]]}
                    for t in (body["topics"] or [])]}
            if ver >= 3:
                r["throttle"] = 0
            return r
        if key == 10:
            r = {"error": code, "node_id": -1, "host": "", "port": -1}
            if ver >= 1:
                r["throttle"] = 0
                r["error_message"] = None
            return r
        if key == 11:
            r = {"error": code, "generation": -1, "protocol": "", "leader": "",
                 "member_id": body.get("member_id", "") if code != MEMBER_ID_REQUIRED else body.get("member_id", ""),
                 "members": []}
            if ver >= 2:
                r["throttle"] = 0
            return r
        if key in (12, 13):
            r = {"error": code}
            if ver >= 1:
                r["throttle"] = 0
            return r
        if key == 14:
            r = {"error": code, "assignment": b""}
            if ver >= 1:
                r["throttle"] = 0
            return r
        if key == 18:
            r = {"error": code, "api_versions": []}
            if ver >= 1:
                r["throttle"] = 0
            return r
        if key == 22:
            return {"throttle": 0, "error": code, "producer_id": -1, "producer_epoch": -1}
        if key == 24:
            return {"throttle": 0, "results": [{"topic": t["topic"], "partitions": [
                {"partition": p, "error": code} for p in t["partitions"]]} for t in body["topics"]]}
        if key in (25, 26):
            return {"throttle": 0, "error": code}
        raise KeyError("no error reply builder for api %d" % key)

    # ---------------------------------------------------------- metadata
    def metadata_body(self, ver, topics, topic_error=0, stale=False):
        brokers = []
        for n in self.nodes.values():
            b = {"node_id": n.node_id, "host": n.host, "port": n.port}
            if ver >= 1:
                b["rack"] = None
            brokers.append(b)
        if topics is None or (ver == 0 and not topics):
            names = sorted(self.topics)
        else:
            names = list(topics)
        tl = []
        for name in names:
            ps = self.topics.get(name)
            if ps is None:
                t = {"error": topic_error or UNKNOWN_TOPIC_OR_PARTITION, "topic": name, "partitions": []}
            else:
                parts = []
                for pl in ps:
                    leader = pl.prev_leader if stale else pl.leader
                    perr = 0
                    if leader == -1:
                        perr = LEADER_NOT_AVAILABLE
                    p = {"error": perr, "partition": pl.partition, "leader": leader,
                         "replicas": [leader] if leader >= 0 else [], "isr": [leader] if leader >= 0 else []}
                    if ver >= 5:
                        p["offline"] = []
                    parts.append(p)
                t = {"error": topic_error, "topic": name, "partitions": parts if not topic_error else []}
            if ver >= 1:
                t["is_internal"] = False
            tl.append(t)
        r = {"brokers": brokers, "topics": tl}
        if ver >= 1:
            r["controller_id"] = self.controller
        if ver >= 2:
            r["cluster_id"] = self.cluster_id
        if ver >= 3:
            r["throttle"] = 0
        return r


class _NodeHandler:
    def __init__(self, cluster, node):
        self.cluster = cluster
        self.node = node

    def accept(self, host, port):
        if self.node.up or getattr(self.node, "silent", False):
            return "ok"
        return "blackhole" if self.node.blackhole else "refuse"

    def on_connect(self, conn):
        self.node.conns.append(conn)
        conn.outstanding = []

    def on_disconnect(self, conn):
        if conn in self.node.conns:
            self.node.conns.remove(conn)
        g = self.cluster.groups
        g.on_disconnect(conn)
        # requests still waiting for a reply on this connection end now (client sees the loss)
        t = self.cluster.loop._vtime
        for a in self.cluster.arrivals:
            if a.conn == conn.conn_id and (a.t_end is None or a.t_end > t):
                a.t_end = t
                a.delivered = False

    def on_frame(self, conn, frame, t_written=None):
        if getattr(self.node, "silent", False):
            return                                  # accepted, never read
        self.cluster.on_frame(self.node, conn, frame, t_written)


# ---------------------------------------------------------------- handlers
def h_api_versions(c, ctx):
    body = {"error": 0, "api_versions": [{"api_key": k, "min": v[0], "max": v[1]}
                                         for k, v in sorted(c.versions.items())]}
    if ctx.ver >= 1:
        body["throttle"] = 0
    ctx.reply(body)


def h_metadata(c, ctx):
    ctx.reply(c.metadata_body(ctx.ver, ctx.body.get("topics"), stale=bool(ctx.arrival.extra.get("stale"))))


def h_produce(c, ctx):
    body = ctx.body
    ver = ctx.ver
    now = c.now_ms()
    topics = []
    appended = []
    for t in body["topics"]:
        parts = []
        for p in t["partitions"]:
            pl = c.log(t["name"], p["index"])
            res = {"index": p["index"], "error": 0, "offset": -1}
            ts = -1
            if ctx.arrival.extra.get("error_first") and not topics and not parts:
                res["error"] = ctx.arrival.extra["error_first"]
            elif pl is None:
                res["error"] = UNKNOWN_TOPIC_OR_PARTITION
            elif pl.leader != ctx.node.node_id:
                res["error"] = NOT_LEADER
            else:
                err, off, ts, sbs = _append(c, pl, p["records"] or b"", now, ctx.arrival)
                res["error"] = err
                res["offset"] = off
                appended.extend(sbs)
            if ver >= 2:
                res["timestamp"] = ts
            if ver >= 5:
                res["log_start_offset"] = pl.log_start if pl is not None else -1
            parts.append(res)
        topics.append({"name": t["name"], "partitions": parts})
    ctx.arrival.extra["appended"] = [(sb.base_offset, sb.count) for sb in appended]
    if body["acks"] == 0:
        ctx.arrival.extra["acks0"] = True
        ctx.no_reply()
        return
    r = {"topics": topics}
    if ver >= 1:
        r["throttle"] = 0
    ctx.reply(r)


def _append(c, pl, records, now, arrival):
    """-> (error, base_offset, log_append_time, [StoredBatch])"""
    try:
        entries, rest = RR.split_batches(records)
    except RR.RefDecodeError:
        return CORRUPT_MESSAGE, -1, -1, []
    if rest or not entries:
        return CORRUPT_MESSAGE, -1, -1, []
    first_off = None
    ts_out = -1
    out = []
    for magic, raw in entries:
        if magic != 2:
            return CORRUPT_MESSAGE, -1, -1, out
        try:
            info = RR.decode_v2(raw)
        except RR.RefDecodeError as e:
            arrival.extra.setdefault("decode_errors", []).append(repr(e))
            return CORRUPT_MESSAGE, -1, -1, out
        if not info["crc_ok"] or info["count"] != len(info["records"]) or not info["records"]:
            return CORRUPT_MESSAGE, -1, -1, out
        arrival.extra.setdefault("batches", []).append(
            {"tp": (pl.topic, pl.partition), "pid": info["pid"], "epoch": info["epoch"],
             "base_seq": info["base_seq"], "count": info["count"],
             "transactional": info["transactional"],
             "values": [r["value"] for r in info["records"]]})
        pid = info["pid"]
        if pid >= 0:
            st = pl.producers.get(pid)
            epoch = info["epoch"]
            bs = info["base_seq"]
            cnt = info["count"]
            if st is not None and epoch < st.epoch:
                return INVALID_PRODUCER_EPOCH, -1, -1, out
            if st is None or epoch > st.epoch:
                if bs != 0:
                    return OUT_OF_ORDER_SEQUENCE, -1, -1, out
                st = ProducerState(epoch)
                pl.producers[pid] = st
            else:
                dup = [r for r in st.recent if r[0] == bs and r[1] == cnt]
                if dup:
                    _, _, off, lts = dup[-1]
                    arrival.extra.setdefault("duplicates", []).append((bs, cnt, off))
                    if first_off is None:
                        first_off, ts_out = off, lts
                    continue
                expected = seq_add(st.last_seq, 1) if st.last_seq >= 0 else 0
                if bs != expected:
                    # older than anything we keep -> duplicate; otherwise a gap
                    behind = (expected - bs) % SEQ_MOD
                    if 0 < behind < SEQ_MOD // 2 and bs >= 0:
                        return DUPLICATE_SEQUENCE, -1, -1, out
                    return OUT_OF_ORDER_SEQUENCE, -1, -1, out
            sb = pl.append_produced(raw, info, now)
            st.last_seq = seq_add(bs, cnt - 1)
            st.recent.append((bs, cnt, sb.base_offset, sb.append_ts))
            del st.recent[:-5]
        else:
            sb = pl.append_produced(raw, info, now)
        out.append(sb)
        if first_off is None:
            first_off, ts_out = sb.base_offset, sb.append_ts
    return 0, first_off, ts_out, out


def h_fetch(c, ctx):
    body = ctx.body
    max_wait = body["max_wait"] / 1000.0
    res = _fetch_once(c, ctx)
    if res["has_data"] or res["has_error"] or max_wait <= 0 or body["min_bytes"] <= 0:
        ctx.reply(res["body"])
        return
    # long poll on virtual time
    state = {"done": False}

    def finish():
        if state["done"]:
            return
        state["done"] = True
        ctx.reply(_fetch_once(c, ctx)["body"])

    for t in body["topics"]:
        for p in t["partitions"]:
            pl = c.log(t["topic"], p["partition"])
            if pl is not None:
                pl.waiters.append(finish)
    c.loop.call_at(c.loop._vtime + max_wait, finish)


def _fetch_once(c, ctx):
    body = ctx.body
    ver = ctx.ver
    iso = body.get("isolation_level", 0)
    has_data = False
    has_error = False
    budget = body.get("max_bytes", 1 << 30)
    topics = []
    for t in body["topics"]:
        parts = []
        for p in t["partitions"]:
            pl = c.log(t["topic"], p["partition"])
            d = {"partition": p["partition"], "error": 0, "hw": -1, "records": b""}
            if ver >= 4:
                d["lso"] = -1
                d["aborted"] = None
            if ver >= 5:
                d["log_start_offset"] = -1
            if ver >= 11:
                d["preferred_read_replica"] = -1
            rr = getattr(pl, "read_replica", None) if pl is not None else None
            if rr is not None and (ver < 11 or rr == pl.leader or not body.get("rack_id")):
                rr = None
            from_follower = rr is not None and rr == ctx.node.node_id
            if pl is None:
                d["error"] = UNKNOWN_TOPIC_OR_PARTITION
                has_error = True
            elif pl.leader != ctx.node.node_id and not from_follower:
                d["error"] = NOT_LEADER
                has_error = True
            elif rr is not None and not from_follower and pl.log_start <= p["offset"] <= pl.next_offset:
                # KIP-392: the leader names the replica in the client's rack and sends no records; its knowledge of
                # that replica's log range may be stale (it learns it from the follower's own fetch requests)
                d["hw"] = pl.hw
                d["lso"] = pl.lso
                d["log_start_offset"] = pl.log_start
                d["preferred_read_replica"] = rr
                has_error = True        # answered at once, not parked as a long poll
                ctx.arrival.extra.setdefault("redirected", []).append((t["topic"], p["partition"], p["offset"], rr))
            elif from_follower and rr not in pl.ever_led and \
                    p["offset"] < max(pl.log_start, getattr(pl, "follower_start", 0)):
                # the follower's own retention is ahead of the leader's: it no longer has the offset.  The leader learns
                # the follower's range with its next replica fetch and stops naming it.  Only a node that never led the
                # partition does this: a client that takes the node for the leader (stale metadata) cannot tell this
                # answer from the leader's own and rightly resets (so does the Java consumer).
                d["error"] = OFFSET_OUT_OF_RANGE
                has_error = True
                pl.read_replica = None
                ctx.arrival.extra.setdefault("follower_oor", []).append((t["topic"], p["partition"], p["offset"]))
            else:
                off = p["offset"]
                d["hw"] = pl.hw
                if ver >= 4:
                    d["lso"] = pl.lso
                if ver >= 5:
                    d["log_start_offset"] = pl.log_start
                if off < pl.log_start or off > pl.next_offset:
                    d["error"] = OFFSET_OUT_OF_RANGE
                    has_error = True
                else:
                    bound = pl.lso if iso == 1 else pl.hw
                    sel = []
                    size = 0
                    cap = c.fetch_max_batches.next() if c.fetch_max_batches is not None else None
                    nxt = None
                    for sb in pl.batches:
                        if sb.last_offset < off:
                            continue
                        if sb.base_offset >= bound:
                            break
                        if sel and (size + sb.size > p["max_bytes"] or size + sb.size > budget
                                    or (cap is not None and cap > 0 and len(sel) >= cap)):
                            nxt = sb
                            break
                        sel.append(sb)
                        size += sb.size
                    if sel:
                        has_data = True
                        budget -= size
                        data = b"".join(sb.raw for sb in sel)
                        if nxt is not None and c.fetch_partial is not None:
                            k = int(c.fetch_partial.next())
                            if k > 0:
                                data += nxt.raw[:min(k, nxt.size - 1)]
                        d["records"] = data
                        if ver >= 4 and iso == 1:
                            last = sel[-1].last_offset
                            # the broker's transaction index is appended when the abort marker is written:
                            # entries come in marker order, not in first-offset order
                            d["aborted"] = [{"producer_id": a[0], "first_offset": a[1]}
                                            for a in sorted(pl.aborted, key=lambda a: a[2])
                                            if a[2] >= off and a[1] <= last]
                    ctx.arrival.extra.setdefault("served", []).append(
                        (t["topic"], p["partition"], off, [sb.base_offset for sb in sel]))
            parts.append(d)
        topics.append({"topic": t["topic"], "partitions": parts})
    r = {"topics": topics}
    if ver >= 1:
        r["throttle"] = 0
    if ver >= 7:
        r["error"] = 0
        r["session_id"] = 0
    return {"body": r, "has_data": has_data, "has_error": has_error}


def h_list_offsets(c, ctx):
    body = ctx.body
    ver = ctx.ver
    iso = body.get("isolation_level", 0)
    topics = []
    for t in body["topics"]:
        parts = []
        for p in t["partitions"]:
            pl = c.log(t["topic"], p["partition"])
            err = 0
            off = -1
            ts = -1
            if pl is None:
                err = UNKNOWN_TOPIC_OR_PARTITION
            elif pl.leader != ctx.node.node_id:
                err = NOT_LEADER
            else:
                want = p["timestamp"]
                if want == -1:
                    off = pl.lso if iso == 1 else pl.hw
                elif want == -2:
                    off = pl.log_start
                else:
                    off = -1
                    for b in pl.decoded():
                        for r in b["records"]:
                            if r["offset"] >= pl.log_start and r["timestamp"] is not None and \
                                    r["timestamp"] >= want and not b.get("control"):
                                off, ts = r["offset"], r["timestamp"]
                                break
                        if off >= 0:
                            break
            if ver == 0:
                parts.append({"partition": p["partition"], "error": err,
                              "offsets": [off] if (not err and off >= 0) else []})
            else:
                parts.append({"partition": p["partition"], "error": err, "timestamp": ts, "offset": off})
        topics.append({"topic": t["topic"], "partitions": parts})
    r = {"topics": topics}
    if ver >= 2:
        r["throttle"] = 0
    ctx.arrival.extra["answered"] = r
    ctx.reply(r)


def h_find_coordinator(c, ctx):
    kt = ctx.body.get("key_type", 0)
    node_id = c.txn_coord_node if kt == 1 else c.group_coord_node
    n = c.nodes[node_id]
    if not n.up:
        r = c.error_reply(10, ctx.ver, ctx.body, COORDINATOR_NOT_AVAILABLE)
    else:
        r = {"error": 0, "node_id": n.node_id, "host": n.host, "port": n.port}
        if ctx.ver >= 1:
            r["throttle"] = 0
            r["error_message"] = None
    ctx.reply(r)


_HANDLERS = {18: h_api_versions, 3: h_metadata, 0: h_produce, 1: h_fetch, 2: h_list_offsets,
             10: h_find_coordinator}


def register(key, fn):
    _HANDLERS[key] = fn
