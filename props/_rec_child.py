"""python -m props._rec_child <props module>: case server for the pure-Python codec.

Started by props._rec_common.PureChild with AIOKAFKA_NO_EXTENSIONS=1.  Reads one JSON
request per line ({"fn": name, "case": jsonified case}) and answers with the Outcome.
Exits at EOF on stdin (i.e. when the worker that started it goes away).
"""
import importlib
import json
import logging
import os
import sys
import traceback


def main():
    logging.disable(logging.CRITICAL)
    from vlib import stage
    stage.activate(os.environ["VERIF_STAGE"])
    from vlib.core import jsonify, unjsonify
    mod = importlib.import_module(sys.argv[1])
    from props import _rec_common as rc
    names = [i.name for i in rc.impls()]
    stdout = sys.stdout.buffer
    stdout.write(("READY %s\n" % ",".join(names)).encode())
    stdout.flush()
    for line in sys.stdin.buffer:
        try:
            req = json.loads(line)
            out = getattr(mod, req["fn"])(unjsonify(req["case"]))
            resp = {"nontrivial": bool(out.nontrivial), "labels": sorted(out.labels),
                    "info": jsonify(out.info), "failures": [f.to_json() for f in out.failures]}
        except BaseException:
            resp = {"error": traceback.format_exc()[-3000:]}
        stdout.write(json.dumps(resp).encode() + b"\n")
        stdout.flush()


if __name__ == "__main__":
    main()
