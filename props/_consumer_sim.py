"""Shared scenario runner for C03 / C08 / C13: a real AIOKafkaConsumer (manual assign or
group-less subscribe) on the simulated cluster, with logs built by the reference codec."""
import asyncio
import random

from vlib import refrecords as RR
from vlib import simloop
from vlib.simkafka import Cluster
from vlib.simloop import Cyclic

_SHIMMED = [False]


def setup():
    import aiokafka  # noqa
    import aiokafka.consumer.consumer  # noqa
    import aiokafka.producer.producer  # noqa
    simloop.install_time_shim()
    _SHIMMED[0] = True


# ------------------------------------------------------------------ log building
def build_batch(spec, topic, partition, base, now_ms=1_600_000_000_000):
    """-> (raw bytes or None if compacted away, next_offset)

    spec keys: fmt ('v0','v1','v2'), codec, n, deltas (list of offset deltas between records, >=1),
    tail (extra offsets after the last record inside the batch range), kind ('data','commit','abort',
    'empty'), pid, txn, ts (list), lat (LogAppendTime), gone (whole batch compacted away)."""
    kind = spec.get("kind", "data")
    pid = spec.get("pid", -1)
    if kind in ("commit", "abort"):
        raw = RR.encode_control_batch(base, pid, spec.get("epoch", 0), kind == "commit", timestamp=now_ms,
                                      key_extra=spec.get("key_extra", b""), attrs_extra=spec.get("attrs_extra", 0))
        return (None if spec.get("gone") else raw), base + 1
    n = spec["n"]
    deltas = spec.get("deltas") or []
    offs = []
    o = 0
    for i in range(n):
        if i:
            o += max(1, deltas[(i - 1) % len(deltas)]) if deltas else 1
        offs.append(o)
    tail = spec.get("tail", 0)
    last_delta = (offs[-1] if offs else 0) + tail
    fmt = spec.get("fmt", "v2")
    tss = spec.get("ts") or [1000]
    recs = []
    for i, od in enumerate(offs):
        off = base + od
        key = None if (off % 3 == 0) else b"k%d" % off
        value = None if (off % 7 == 3 and key is not None) else b"%s-%d-%d-" % (topic.encode(), partition, off) + b"v" * spec.get("pad", 0)
        hs = []
        if fmt == "v2" and off % 4 == 1:
            hs = [("h", b"x%d" % off), ("né", None)]
        recs.append({"offset_delta": od, "offset": off, "timestamp": tss[i % len(tss)], "key": key,
                     "value": value, "headers": hs})
    if fmt == "v2":
        if kind == "empty":
            raw = RR.encode_v2([], base_offset=base, last_offset_delta=last_delta, first_ts=tss[0], max_ts=tss[0],
                               pid=pid, epoch=0 if pid >= 0 else -1, base_seq=0 if pid >= 0 else -1,
                               transactional=bool(spec.get("txn")), attrs_extra=spec.get("attrs_extra", 0))
        else:
            raw = RR.encode_v2(recs, base_offset=base, codec=spec.get("codec", 0), ts_type=1 if spec.get("lat") else 0,
                               transactional=bool(spec.get("txn")), pid=pid, epoch=0 if pid >= 0 else -1,
                               base_seq=spec.get("seq", 0) if pid >= 0 else -1, last_offset_delta=last_delta,
                               max_ts=(max(r["timestamp"] for r in recs) if not spec.get("lat") else now_ms),
                               attrs_extra=spec.get("attrs_extra", 0))
        return (None if spec.get("gone") else raw), base + last_delta + 1
    magic = 0 if fmt == "v0" else 1
    codec = spec.get("codec", 0)
    if magic == 0 and codec == RR.CODEC_LZ4:
        codec = RR.CODEC_GZIP
    if codec == RR.CODEC_ZSTD:
        codec = RR.CODEC_SNAPPY
    for r in recs:
        if magic == 0:
            r["timestamp"] = None
        if r["value"] is None and r["key"] is None:
            r["value"] = b""
    raw = RR.encode_legacy(magic, recs, codec, ts_type=1 if (spec.get("lat") and magic == 1) else 0,
                           wrapper_ts=now_ms if (spec.get("lat") and magic == 1) else None)
    return (None if spec.get("gone") else raw), base + offs[-1] + 1


def install_batches(pl, specs, now_ms=1_600_000_000_000):
    for spec in specs:
        base = pl.next_offset + spec.get("skip", 0)
        raw, nxt = build_batch(spec, pl.topic, pl.partition, base, now_ms)
        if raw is None:
            pl.next_offset = nxt
            continue
        if raw[16] < 2:
            # legacy: uncompressed = several top-level messages
            entries, rest = RR.split_batches(raw)
            for _, e in entries:
                pl.install(e, "built")
        else:
            pl.install(raw, "built")
        pl.next_offset = max(pl.next_offset, nxt)


# ------------------------------------------------------------------ independent reader
def visible_records(decoded, isolation, upto=None):
    """The records a consumer of the given isolation level must see, from reference-decoded
    batches.  read_committed: non-transactional + committed transactions; markers never."""
    out = []
    if isolation == "read_uncommitted":
        for b in decoded:
            if b.get("control"):
                continue
            for r in b["records"]:
                out.append((r["offset"], r, b))
    else:
        pending = {}       # pid -> list of (offset, r, b)
        for b in decoded:
            if b.get("control"):
                pid = b["pid"]
                k = b["records"][0]["key"] if b["records"] else None
                commit = k is not None and len(k) >= 4 and k[2:4] == b"\x00\x01"
                held = pending.pop(pid, [])
                if commit:
                    out.extend(held)
                continue
            if b.get("transactional"):
                lst = pending.setdefault(b["pid"], [])
                for r in b["records"]:
                    lst.append((r["offset"], r, b))
            else:
                for r in b["records"]:
                    out.append((r["offset"], r, b))
    out.sort(key=lambda x: x[0])
    if upto is not None:
        out = [x for x in out if x[0] < upto]
    return out


class InjectedDeserializerError(Exception):
    """raised by the harness' own value deserializer (cfg deser_fail)"""


class Obs:
    def __init__(self):
        self.events = []        # observation list (dicts), in return order
        self.start_error = None
        self.deadlock = None
        self.notes = []
        self.cluster = None
        self.consumer_tps = []
        self.drained = None
        self.vtime = 0.0
        self.final = {}         # tp key -> dict(decoded, hw, lso, log_start, end)
        self.seek_inflight = 0
        self.deser_failures = []
        self.exc_log = []
        self.stop_returned = None
        self.tasks_hung = False
        self.stop_error = None
        self.bound = None
        self.t_quiet = None
        self.final_positions = {}


def tpk(topic, partition):
    return "%s:%d" % (topic, partition)


async def _main(case, obs, loop, net):
    from aiokafka import AIOKafkaConsumer
    from aiokafka.errors import KafkaError
    from aiokafka.structs import TopicPartition

    cfg = case["cfg"]
    cl = case["cluster"]
    random.seed(case["rng_seed"])
    pers = {}
    if cl.get("fetch_max") is not None:
        pers[1] = (0, cl["fetch_max"])
    if cl.get("list_offsets_max") is not None:
        pers[2] = (0, cl["list_offsets_max"])
    c = Cluster(loop, net, n_nodes=cl["nodes"], personality=pers)
    obs.cluster = c
    tps = []
    for lg in case["logs"]:
        if lg["topic"] not in c.topics:
            c.add_topic(lg["topic"], lg["nparts"], leaders=lg.get("leaders"))
    for lg in case["logs"]:
        pl = c.log(lg["topic"], lg["partition"])
        pl.log_start = lg.get("log_start", 0)
        pl.next_offset = pl.log_start
        install_batches(pl, lg["batches"])
        pl.hw_lag = lg.get("hw_lag", 0)
        fo = lg.get("follower")
        if fo:
            # KIP-392 follower reads: the leader names this node to clients that send a rack id; the follower's own
            # retention may be ahead of the leader's (it then answers OFFSET_OUT_OF_RANGE for offsets the leader has)
            pl.read_replica = fo["node"] % cl["nodes"]
            top = min(pl.hw, pl.lso)
            pl.follower_start = pl.log_start + int(fo["start_frac"] * (top - pl.log_start))
        tps.append(TopicPartition(lg["topic"], lg["partition"]))
    obs.consumer_tps = [(t.topic, t.partition) for t in tps]
    pl0 = c.log(tps[0].topic, tps[0].partition)
    obs.initial = {"log_start": pl0.log_start, "hw": pl0.hw, "lso": pl0.lso, "end": pl0.next_offset}
    if case.get("shape_batches"):
        c.fetch_max_batches = Cyclic(case["shape_batches"])
    if case.get("shape_partial"):
        c.fetch_partial = Cyclic(case["shape_partial"])
    for k, off in (case.get("committed") or {}).items():
        t, pnum = k.rsplit(":", 1)
        c.groups.group(cfg["group_id"]).offsets[(t, int(pnum))] = (off, "")
    c.set_faults(case.get("faults", []))
    env = []
    for e in case.get("env", []):
        if e["ev"] == "append":
            e = dict(e)
            e["ev"] = "call"
            lgi = e["log"] % len(case["logs"])
            lg = case["logs"][lgi]
            e["fn"] = (lambda lg=lg, spec=e["spec"]: install_batches(c.log(lg["topic"], lg["partition"]), [spec],
                                                                     c.now_ms()))
        elif e["ev"] == "trim":
            # retention / DeleteRecords: the log start moves up (never past the high watermark)
            e = dict(e)
            e["ev"] = "call"
            lg = case["logs"][e["log"] % len(case["logs"])]

            def trim(lg=lg, frac=e["frac"]):
                pl = c.log(lg["topic"], lg["partition"])
                top = min(pl.hw, pl.lso)
                pl.log_start = max(pl.log_start, min(top, pl.log_start + int(frac * (top - pl.log_start) + 0.5)))
            e["fn"] = trim
        env.append(e)
    obs.initial_log_start = {tpk(lg["topic"], lg["partition"]): c.log(lg["topic"], lg["partition"]).log_start
                             for lg in case["logs"]}
    c.schedule(env)
    kw = dict(bootstrap_servers=c.bootstrap(), group_id=cfg.get("group_id"),
              session_timeout_ms=cfg.get("session_timeout_ms", 3000), heartbeat_interval_ms=cfg.get("heartbeat_interval_ms", 300),
              auto_offset_reset=cfg.get("auto_offset_reset_as", cfg.get("auto_offset_reset", "earliest")), enable_auto_commit=False,
              isolation_level=cfg.get("isolation", "read_uncommitted"), check_crcs=cfg.get("check_crcs", True),
              max_partition_fetch_bytes=cfg.get("max_partition_fetch_bytes", 1048576),
              fetch_max_wait_ms=cfg.get("fetch_max_wait_ms", 100), fetch_max_bytes=cfg.get("fetch_max_bytes", 52428800),
              request_timeout_ms=cfg.get("request_timeout_ms", 400), retry_backoff_ms=cfg.get("retry_backoff_ms", 20),
              metadata_max_age_ms=cfg.get("metadata_max_age_ms", 2000), max_poll_records=cfg.get("max_poll_records"))
    if cfg.get("client_rack"):
        kw["client_rack"] = cfg["client_rack"]
    df = cfg.get("deser_fail")
    if df:
        # the application's value deserializer raises the first time it sees certain records (a poison message that
        # the application handles and polls again): whatever was not handed out has to come again, nothing is lost
        seen = set()
        obs.deser_failures = []

        def deser(v):
            if v is None:
                return v
            parts = v.split(b"-", 3)
            try:
                p, off = int(parts[1]), int(parts[2])
            except Exception:
                return v
            if off % df["mod"] == df["rem"] and (p, off) not in seen:
                seen.add((p, off))
                obs.deser_failures.append((loop._vtime, p, off))
                raise InjectedDeserializerError("poison record %d/%d" % (p, off))
            return v
        kw["value_deserializer"] = deser
    consumer = AIOKafkaConsumer(**kw)
    if cfg.get("mode", "assign") == "assign":
        consumer.assign(tps)
    else:
        listener = None
        if case.get("record_assignments"):
            from aiokafka import ConsumerRebalanceListener

            class L(ConsumerRebalanceListener):
                def on_partitions_revoked(self, revoked):
                    obs.events.append({"op": "revoked", "task": -1, "t": loop._vtime, "tps": sorted(tpk(*x) for x in revoked)})

                def on_partitions_assigned(self, assigned):
                    obs.events.append({"op": "assigned", "task": -1, "t": loop._vtime, "tps": sorted(tpk(*x) for x in assigned)})
            listener = L()
        consumer.subscribe(sorted({t.topic for t in tps}), listener=listener)
    try:
        await asyncio.wait_for(consumer.start(), 60.0)
    except Exception as e:
        obs.start_error = repr(e)
        try:
            await asyncio.wait_for(consumer.stop(), 60.0)
        except Exception:
            pass
        return
    obs.consumer = consumer
    for pre in case.get("pre", []):     # operations before any task starts (e.g. initial seeks)
        if pre[0] == "seek":
            tp = tps[pre[1] % len(tps)]
            pl = c.log(tp.topic, tp.partition)
            off = pl.log_start + int(pre[2] * (pl.next_offset - pl.log_start))
            consumer.seek(tp, off)
            obs.events.append({"op": "seek", "tp": tpk(*tp), "offset": off, "t": loop._vtime, "task": -1})

    def rec_view(m):
        return {"tp": tpk(m.topic, m.partition), "offset": m.offset, "key": m.key, "value": m.value,
                "headers": [(k, v) for k, v in m.headers], "timestamp": m.timestamp,
                "timestamp_type": m.timestamp_type}

    def fetch_inflight(tp):
        for a in c.arrivals:
            if a.key == 1 and a.t_end is None and not a.reply:
                for t in a.body["topics"]:
                    if t["topic"] == tp.topic and any(p["partition"] == tp.partition for p in t["partitions"]):
                        return True
        return False

    def sel(idx):
        return [tps[i % len(tps)] for i in idx]

    async def run_task(ti, ops):
        for oi, op in enumerate(ops):
            kind = op[0]
            ev = {"op": kind, "task": ti, "t_call": loop._vtime}
            try:
                if kind == "sleep":
                    await asyncio.sleep(op[1])
                    continue
                if kind == "append":
                    tp = tps[op[1] % len(tps)]
                    install_batches(c.log(tp.topic, tp.partition), [op[2]], c.now_ms())
                    ev["tp"] = tpk(*tp)
                    ev["t"] = loop._vtime
                    obs.events.append(ev)
                    continue
                if kind == "reassign":
                    # manual assignment made again (same partitions): the partition states are new, the start rule
                    # applies again
                    consumer.assign(tps)
                    ev.update({"op": "assigned", "manual": True, "tps": sorted(tpk(*x) for x in tps), "t": loop._vtime})
                    obs.events.append(ev)
                    continue
                if kind == "trim":
                    tp = tps[op[1] % len(tps)]
                    pl = c.log(tp.topic, tp.partition)
                    top = min(pl.hw, pl.lso)
                    pl.log_start = max(pl.log_start, min(top, pl.log_start + int(op[2] * (top - pl.log_start) + 0.5)))
                    c.fault_log.append((loop._vtime, {"ev": "trim", "tp": tpk(*tp), "log_start": pl.log_start}, None))
                    continue
                if kind == "getone":
                    parts = sel(op[1])
                    ev["filter"] = [tpk(*p) for p in parts]
                    try:
                        m = await asyncio.wait_for(consumer.getone(*parts), op[2])
                        ev["records"] = [rec_view(m)]
                    except asyncio.TimeoutError:
                        ev["records"] = []
                elif kind == "getmany":
                    parts = sel(op[1])
                    ev["filter"] = [tpk(*p) for p in parts]
                    ev["max_records"] = op[2]
                    res = await consumer.getmany(*parts, timeout_ms=op[3], max_records=op[2])
                    ev["records"] = []
                    ev["by_tp"] = {}
                    for tp, ms in res.items():
                        ev["by_tp"][tpk(*tp)] = [rec_view(m) for m in ms]
                        ev["records"].extend(ev["by_tp"][tpk(*tp)])
                elif kind == "seek":
                    tp = tps[op[1] % len(tps)]
                    pl = c.log(tp.topic, tp.partition)
                    off = pl.log_start + int(op[2] * (pl.next_offset - pl.log_start))
                    ev["tp"] = tpk(*tp)
                    ev["offset"] = off
                    ev["fetch_in_flight"] = fetch_inflight(tp)
                    if ev["fetch_in_flight"]:
                        obs.seek_inflight += 1
                    consumer.seek(tp, off)
                elif kind in ("seek_to_end", "seek_to_beginning"):
                    tp = tps[op[1] % len(tps)]
                    ev["tp"] = tpk(*tp)
                    ev["returned"] = await getattr(consumer, kind)(tp)
                    ev["t_returned"] = loop._vtime
                    try:
                        ev["position_after"] = await asyncio.wait_for(consumer.position(tp), 5.0)
                    except asyncio.TimeoutError:
                        ev["position_after"] = None
                elif kind == "pause":
                    parts = sel(op[1])
                    ev["tps"] = [tpk(*p) for p in parts]
                    ev["fetch_in_flight"] = any(fetch_inflight(p) for p in parts)
                    consumer.pause(*parts)
                elif kind == "resume":
                    parts = sel(op[1])
                    ev["tps"] = [tpk(*p) for p in parts]
                    consumer.resume(*parts)
                elif kind == "position":
                    tp = tps[op[1] % len(tps)]
                    ev["tp"] = tpk(*tp)
                    try:
                        ev["position"] = await asyncio.wait_for(consumer.position(tp), 5.0)
                    except asyncio.TimeoutError:
                        ev["position"] = None
                elif kind == "seek_position":     # seek then immediately position()
                    tp = tps[op[1] % len(tps)]
                    pl = c.log(tp.topic, tp.partition)
                    off = pl.log_start + int(op[2] * (pl.next_offset - pl.log_start))
                    ev["tp"] = tpk(*tp)
                    ev["offset"] = off
                    ev["op"] = "seek"
                    ev["fetch_in_flight"] = fetch_inflight(tp)
                    consumer.seek(tp, off)
                    ev["position_after"] = await consumer.position(tp)
            except (KafkaError, InjectedDeserializerError) as e:
                ev["error"] = (type(e).__name__, repr(e))
            except Exception as e:     # anything else escaping the consumer API is reported by the oracles
                ev["error"] = (type(e).__name__, repr(e))
                ev["unexpected"] = True
            ev["t"] = loop._vtime
            obs.events.append(ev)

    tasks = [asyncio.ensure_future(run_task(i, ops)) for i, ops in enumerate(case["tasks"])]
    done, pend = await asyncio.wait(tasks, timeout=120.0)
    c.make_quiet()
    obs.t_quiet = loop._vtime
    bound = 20 * cfg.get("request_timeout_ms", 400) / 1000.0 + 50 * cfg.get("retry_backoff_ms", 20) / 1000.0 + 10.0
    obs.bound = bound
    if pend:
        done2, pend = await asyncio.wait(pend, timeout=bound)
        if pend:
            obs.tasks_hung = True
            for t in pend:
                t.cancel()
            await asyncio.wait(pend, timeout=1.0)
    for t in tasks:
        if t.done() and not t.cancelled() and t.exception() is not None:
            raise t.exception()
    # ---- drain: resume everything, read until the model says nothing visible is left
    consumer.resume(*tps)
    obs.events.append({"op": "resume", "task": -1, "tps": [tpk(*p) for p in tps], "t": loop._vtime})
    deadline = loop._vtime + bound
    want = case.get("drain_hint")
    idle = 0
    scan_from = 0
    last_trouble = [0.0]
    quiet_need = max(1.2, 2 * case["cfg"].get("fetch_max_wait_ms", 100) / 1000.0 + 0.4)
    idle_cap = 6 + int((case["cfg"].get("metadata_max_age_ms", 5000) / 1000.0 + 2.0 + quiet_need) / 0.2)
    while loop._vtime < deadline:
        how = case.get("drain", "getmany")
        ev = {"op": how, "task": -1, "t_call": loop._vtime, "filter": [], "max_records": None, "drain": True}
        try:
            if how == "getone":
                # the application reads one record at a time (the `async for` style)
                try:
                    m = await asyncio.wait_for(consumer.getone(), 0.2)
                    res = {TopicPartition(m.topic, m.partition): [m]}
                except asyncio.TimeoutError:
                    res = {}
            else:
                res = await consumer.getmany(timeout_ms=200)
        except Exception as e:
            ev["error"] = (type(e).__name__, repr(e))
            ev["unexpected"] = not isinstance(e, (KafkaError, InjectedDeserializerError))
            ev["records"] = []
            ev["t"] = loop._vtime
            obs.events.append(ev)
            await asyncio.sleep(0.05)
            continue
        ev["records"] = []
        ev["by_tp"] = {}
        for tp, ms in res.items():
            ev["by_tp"][tpk(*tp)] = [rec_view(m) for m in ms]
            ev["records"].extend(ev["by_tp"][tpk(*tp)])
        ev["t"] = loop._vtime
        obs.events.append(ev)
        if not ev["records"]:
            idle += 1
            if idle >= 6 and case.get("drain_stop_idle", True):
                # idle only counts as "drained" when the brokers have been quiet as well, for longer than a fetch
                # long-poll: a client that is still being answered with errors (e.g. ListOffsets at a stale leader
                # until the next metadata refresh), or whose recovered partition waits for the node's in-flight
                # long-poll to return, is recovering, not finished
                for a in c.arrivals[scan_from:]:
                    if _reply_has_error(a.reply) or a.fault or (a.t_end is not None and not a.delivered):
                        # (a request whose reply never reached the client - connection torn down first - is trouble too)
                        last_trouble[0] = max(last_trouble[0], a.t_end if a.t_end is not None else a.t)
                scan_from = max(0, len(c.arrivals) - 40)      # requests still unanswered are looked at again
                if idle < idle_cap and loop._vtime - last_trouble[0] < quiet_need:
                    continue
                break
        else:
            idle = 0
    # final positions
    obs.final_positions = {}
    for tp in tps:
        try:
            obs.final_positions[tpk(*tp)] = await asyncio.wait_for(consumer.position(tp), 5.0)
        except Exception as e:
            obs.final_positions[tpk(*tp)] = repr(e)
    stop_task = asyncio.ensure_future(consumer.stop())
    done, pend = await asyncio.wait([stop_task], timeout=bound)
    if pend:
        obs.notes.append("stop did not return within bound")
        stop_task.cancel()
    elif stop_task.cancelled():
        obs.stop_error = "CancelledError"
    elif stop_task.exception() is not None:
        obs.stop_error = repr(stop_task.exception())
    else:
        obs.stop_returned = loop._vtime


def _reply_has_error(r):
    if isinstance(r, dict):
        for k, v in r.items():
            if k == "error":
                if isinstance(v, int) and v != 0:
                    return True
            elif isinstance(v, (dict, list)) and _reply_has_error(v):
                return True
    elif isinstance(r, list):
        return any(_reply_has_error(x) for x in r)
    return False


def _run(case):
    if not _SHIMMED[0]:
        setup()
    obs = Obs()
    net_kwargs = {"latencies": case.get("lat") or [0.001], "chunks": case.get("chunks") or [0],
                  "connect_latencies": [0.001]}

    async def main(loop, net):
        await _main(case, obs, loop, net)

    _, exc, loop, net = simloop.run_case(main, net_kwargs=net_kwargs, vtime_cap=1800.0)
    obs.vtime = loop._vtime
    if exc is not None:
        if isinstance(exc, (simloop.Deadlock, simloop.VirtualTimeLimit, simloop.BusyLoop)):
            obs.deadlock = repr(exc)
        else:
            simloop.finish(loop)
            raise exc
    obs.exc_log = list(loop.exc_log)
    c = obs.cluster
    if c is not None:
        for tname, parts in c.topics.items():
            for pl in parts:
                obs.final[tpk(tname, pl.partition)] = {"decoded": pl.decoded(), "hw": pl.hw, "lso": pl.lso,
                                                       "log_start": pl.log_start, "end": pl.next_offset}
    simloop.finish(loop)
    obs.consumer = None
    return obs


# ------------------------------------------------------------------ delivery model
def check_delivery(case, obs, out, isolation, initial_pos=None, check_drain=True):
    """Position model per partition over the observation list.  Adds failures to `out`.
    Returns dict of per-partition model positions at the end."""
    vis = {}
    for key, f in obs.final.items():
        bound = f["lso"] if isolation == "read_committed" else f["hw"]
        lo0 = getattr(obs, "initial_log_start", {}).get(key, f["log_start"])
        vis[key] = [x for x in visible_records(f["decoded"], isolation, bound) if x[0] >= lo0]
    # records below the final log start were removed by retention while the consumer ran: it may have delivered
    # them before that, and it may skip the ones it had not reached (out of range -> earliest), never anything else
    trimmed_below = {key: f["log_start"] for key, f in obs.final.items()}
    pos = {}
    paused = set()
    for t, p in obs.consumer_tps:
        k = tpk(t, p)
        pos[k] = (initial_pos or {}).get(k, getattr(obs, "initial_log_start", {}).get(k, obs.final[k]["log_start"]))

    def next_visible(k, p):
        for x in vis[k]:
            if x[0] >= p:
                return x
        return None

    delivered = {k: [] for k in pos}
    for ev in obs.events:
        op = ev["op"]
        if ev.get("unexpected"):
            out.fail("in_order_no_gap", "api_raised:" + ev["error"][0], {"event": _short(ev)})
        if op == "seek":
            k = ev["tp"]
            pos[k] = ev["offset"]
            if ev.get("position_after") is not None and ev["position_after"] != ev["offset"]:
                out.fail("seek_exact", "position_after_seek", {"event": _short(ev)})
        elif op == "pause":
            paused.update(ev["tps"])
        elif op == "resume":
            paused.difference_update(ev["tps"])
        elif op == "position":
            k = ev["tp"]
            if ev.get("position") is None:
                continue
            nv = next_visible(k, max(pos[k], trimmed_below[k]))
            hi = nv[0] if nv is not None else max(obs.final[k]["end"], pos[k])
            if not (pos[k] <= ev["position"] <= hi):
                out.fail("position_bounds", "behind" if ev["position"] < pos[k] else "ahead",
                         {"tp": k, "position": ev["position"], "model_pos": pos[k], "next_visible": hi})
        elif op in ("getone", "getmany"):
            flt = set(ev.get("filter") or [])
            groups = ev.get("by_tp") or {}
            if op == "getone":
                groups = {}
                for r in ev.get("records", []):
                    groups.setdefault(r["tp"], []).append(r)
            if op == "getmany" and ev.get("max_records") is not None and \
                    len(ev.get("records", [])) > ev["max_records"]:
                out.fail("filter_respected", "max_records_exceeded", {"event": _short(ev)})
            for k, recs in groups.items():
                if flt and k not in flt:
                    out.fail("filter_respected", "partition_not_requested", {"tp": k, "event": _short(ev)})
                if k in paused and recs:
                    out.fail("paused_silent", "record_from_paused_partition", {"tp": k, "event": _short(ev)})
                for r in recs:
                    nv = next_visible(k, pos[k])
                    if nv is not None and nv[0] < r["offset"] and \
                            all(x[0] < trimmed_below[k] for x in vis[k] if pos[k] <= x[0] < r["offset"]):
                        # the records skipped were all removed by retention before the consumer reached them
                        out.label("skipped_records_removed_by_retention")
                        nv = next_visible(k, r["offset"])
                    if nv is None or nv[0] != r["offset"]:
                        kind = "unexpected_record"
                        if nv is not None and r["offset"] > nv[0]:
                            kind = "skipped"
                        elif r["offset"] < pos[k]:
                            kind = "repeated_or_before_position"
                        elif not any(x[0] == r["offset"] for x in vis[k]):
                            kind = "invisible_record_delivered"
                        out.fail("in_order_no_gap", kind, {"tp": k, "got": r["offset"], "model_pos": pos[k],
                                                         "expected": None if nv is None else nv[0],
                                                         "event": _short(ev)})
                        pos[k] = max(pos[k], r["offset"] + 1)
                        continue
                    _, rr, bb = nv
                    want_headers = [(hk, hv) for hk, hv in rr.get("headers", [])]
                    if r["key"] != rr["key"] or r["value"] != rr["value"] or list(map(tuple, r["headers"])) != want_headers:
                        out.fail("in_order_no_gap", "content_differs", {"tp": k, "offset": r["offset"],
                                                                        "got": [r["key"], r["value"], r["headers"]],
                                                                        "log": [rr["key"], rr["value"], want_headers]})
                    if bb["magic"] >= 1 and (r["timestamp"] != rr["timestamp"] or
                                             r["timestamp_type"] != rr.get("ts_type")):
                        out.fail("in_order_no_gap", "timestamp_differs", {"tp": k, "offset": r["offset"],
                                                                          "got": [r["timestamp"], r["timestamp_type"]],
                                                                          "log": [rr["timestamp"], rr.get("ts_type")]})
                    delivered[k].append(r["offset"])
                    pos[k] = r["offset"] + 1
    if check_drain and not obs.deadlock:
        for k in pos:
            nv = next_visible(k, max(pos[k], trimmed_below[k]))
            if nv is not None:
                out.fail("drains", "visible_records_left", {"tp": k, "model_pos": pos[k], "next_visible": nv[0],
                                                            "end": obs.final[k]["end"], "bound": obs.bound})
    return pos, delivered, vis


def _short(ev):
    d = {k: v for k, v in ev.items() if k not in ("records", "by_tp")}
    d["offsets"] = [(r["tp"], r["offset"]) for r in ev.get("records", [])][:12]
    return d


def run(case):
    """Execute the case (case["debug_log"]: with the library's DEBUG logging switched on); returns Obs."""
    from vlib.core import debug_logging
    with debug_logging(case.get("debug_log")):
        return _run(case)
