#!/venv/bin/python
"""usage: tools/mkmutant.py PROP NAME FILE OLD NEW  -> writes mutants/PROP/NAME.diff (FILE relative to repo root)"""
import sys, os, difflib
prop, name, f, old, new = sys.argv[1:6]
src = open(os.path.join("/repo", f)).read()
old = old.encode().decode("unicode_escape"); new = new.encode().decode("unicode_escape")
assert src.count(old) >= 1, "OLD not found"
dst = src.replace(old, new, 1)
d = "".join(difflib.unified_diff(src.splitlines(True), dst.splitlines(True), "a/" + f, "b/" + f))
os.makedirs("/verif/mutants/" + prop, exist_ok=True)
open("/verif/mutants/%s/%s.diff" % (prop, name), "w").write(d)
print(d)
