"""Shared scenario runner for C04 / C05 / C06 (and workloads of C19): 1-4 real group consumers on the
simulated cluster, each a simulated process with its own application loop and rebalance listener."""
import asyncio
import random
import re

from vlib import refproto as RP
from vlib import simloop
from vlib.simkafka import Cluster
from vlib.simloop import Cyclic

from . import _consumer_sim as CS
from ._txn_sim import CLIENT_TAG, TaggedNet

_SHIMMED = [False]

SUBSCRIPTION_SCHEMA = RP.parse("version:i16 topics:[str] user_data:nbytes")
ASSIGNMENT_SCHEMA = RP.parse("version:i16 assignment:[topic:str partitions:[i32]] user_data:nbytes")


def setup():
    import aiokafka  # noqa
    import aiokafka.consumer.consumer  # noqa
    import aiokafka.producer.producer  # noqa
    simloop.install_time_shim()
    _SHIMMED[0] = True


def decode_assignment(raw):
    if not raw:
        return set()
    v = RP.decode(ASSIGNMENT_SCHEMA, raw, exact=False)
    return {(a["topic"], p) for a in v["assignment"] for p in a["partitions"]}


def decode_subscription(raw):
    v = RP.decode(SUBSCRIPTION_SCHEMA, raw, exact=False)
    return list(v["topics"])


def tpk(t, p):
    return "%s:%d" % (t, p)


class Obs:
    def __init__(self):
        self.seq = 0
        self.events = []       # dicts with 'seq', 't', 'kind', 'member', ...
        self.cluster = None
        self.deadlock = None
        self.notes = []
        self.members = {}      # tag -> dict
        self.final = {}
        self.vtime = 0.0
        self.t_quiet = None
        self.killed = []
        self.hung = []
        self.bound = None
        self.windows = {}

    def ev(self, loop, kind, member, **kw):
        self.seq += 1
        d = {"seq": self.seq, "t": loop._vtime, "kind": kind, "member": member}
        d.update(kw)
        self.events.append(d)
        return d


def make_assignors(names, tag):
    from aiokafka.coordinator.assignors.range import RangePartitionAssignor
    from aiokafka.coordinator.assignors.roundrobin import RoundRobinPartitionAssignor
    from aiokafka.coordinator.assignors.sticky.sticky_assignor import StickyPartitionAssignor
    out = []
    for n in names:
        if n == "range":
            out.append(RangePartitionAssignor)
        elif n == "roundrobin":
            out.append(RoundRobinPartitionAssignor)
        else:
            # the sticky assignor keeps member state in class attributes: one subclass per member
            out.append(type("Sticky_" + tag, (StickyPartitionAssignor,), {"member_assignment": None, "generation": -1}))
    return tuple(out)


async def _member(case, spec, tag, obs, c, loop, net, ctl):
    from aiokafka import AIOKafkaConsumer, ConsumerRebalanceListener
    from aiokafka.errors import KafkaError, ConsumerStoppedError
    from aiokafka.structs import TopicPartition

    CLIENT_TAG.set(tag)
    cfg = case["cfg"]
    m = {"tag": tag, "state": "init", "epoch": 0, "consumer": None, "spec": spec}
    obs.members[tag] = m
    if spec.get("start_at"):
        await asyncio.sleep(spec["start_at"])
    extra = {}
    df = spec.get("deser_fail")
    if df:
        # this member's value deserializer raises the first time it sees certain records (see _consumer_sim)
        seen = set()

        def deser(v):
            if v is None:
                return v
            parts = v.split(b"-", 3)
            try:
                p, off = int(parts[1]), int(parts[2])
            except Exception:
                return v
            if off % df["mod"] == df["rem"] and (p, off) not in seen:
                seen.add((p, off))
                obs.ev(loop, "deser_failed", tag, tp="t?:%d" % p, offset=off)
                raise CS.InjectedDeserializerError("poison record %d/%d" % (p, off))
            return v
        extra["value_deserializer"] = deser
    consumer = AIOKafkaConsumer(
        bootstrap_servers=c.bootstrap(), group_id=cfg.get("group_id", "g"), client_id=tag, **extra,
        group_instance_id=spec.get("instance_id"),
        session_timeout_ms=cfg["session_timeout_ms"], heartbeat_interval_ms=cfg["heartbeat_interval_ms"],
        rebalance_timeout_ms=cfg["rebalance_timeout_ms"], retry_backoff_ms=cfg["retry_backoff_ms"],
        request_timeout_ms=cfg["request_timeout_ms"], enable_auto_commit=cfg.get("auto_commit", True),
        auto_commit_interval_ms=cfg.get("auto_commit_interval_ms", 200), auto_offset_reset="earliest",
        partition_assignment_strategy=make_assignors(cfg["assignors"], tag), fetch_max_wait_ms=50,
        metadata_max_age_ms=cfg.get("metadata_max_age_ms", 1000), max_poll_records=spec.get("max_poll_records"),
        max_poll_interval_ms=cfg.get("max_poll_interval_ms", 300000),
        isolation_level="read_uncommitted")
    m["consumer"] = consumer

    class L(ConsumerRebalanceListener):
        async def on_partitions_revoked(self, revoked):
            obs.ev(loop, "revoked_begin", tag, tps=sorted(tpk(*tp) for tp in revoked))
            if spec.get("revoke_delay", spec.get("callback_delay")):
                await asyncio.sleep(spec.get("revoke_delay", spec.get("callback_delay")))
            obs.ev(loop, "revoked_end", tag)

        async def on_partitions_assigned(self, assigned):
            m["epoch"] += 1
            obs.ev(loop, "assigned_begin", tag, tps=sorted(tpk(*tp) for tp in assigned), epoch=m["epoch"],
                   inside=sorted(tpk(*tp) for tp in consumer.assignment()))
            if spec.get("callback_delay"):
                await asyncio.sleep(spec["callback_delay"])
            obs.ev(loop, "assigned_end", tag, epoch=m["epoch"],
                   after=sorted(tpk(*tp) for tp in consumer.assignment()))

    class Delegating(ConsumerRebalanceListener):
        """The same listener written the other legal way: plain methods that hand back the coroutine of a helper
        (the documented contract is "a coroutine or function")."""
        def __init__(self):
            self._inner = L()

        def on_partitions_revoked(self, revoked):
            return self._inner.on_partitions_revoked(revoked)

        def on_partitions_assigned(self, assigned):
            return self._inner.on_partitions_assigned(assigned)

    def make_listener():
        return Delegating() if spec.get("listener_style") == "delegating" else L()

    def subscribe(topics):
        if isinstance(spec["topics"], str) and not isinstance(topics, str):
            topics = "|".join(topics)        # a pattern subscriber stays a pattern subscriber
        if isinstance(topics, str):
            consumer.subscribe(pattern=topics, listener=make_listener())
        else:
            consumer.subscribe(list(topics), listener=make_listener())
        obs.ev(loop, "subscribe", tag, topics=topics)

    subscribe(spec["topics"])
    try:
        await consumer.start()
    except asyncio.CancelledError:
        raise
    except Exception as e:
        obs.ev(loop, "start_failed", tag, error=repr(e))
        m["state"] = "start_failed"
        try:
            await consumer.stop()
        except Exception:
            pass
        return
    m["state"] = "running"
    obs.ev(loop, "started", tag)

    def deliver(msgs):
        for mm in msgs:
            obs.ev(loop, "deliver", tag, tp=tpk(mm.topic, mm.partition), offset=mm.offset, epoch=m["epoch"],
                   value=mm.value)

    async def poll(kind, timeout, max_records=None):
        try:
            if kind == "getone":
                try:
                    msg = await asyncio.wait_for(consumer.getone(), timeout)
                    deliver([msg])
                except asyncio.TimeoutError:
                    pass
            else:
                res = await consumer.getmany(timeout_ms=int(timeout * 1000), max_records=max_records)
                for tp in sorted(res):
                    deliver(res[tp])
        except ConsumerStoppedError:
            raise
        except CS.InjectedDeserializerError:
            await asyncio.sleep(0.001)           # the application logs the poison record and polls again
        except KafkaError as e:
            obs.ev(loop, "api_error", tag, call=kind, error=type(e).__name__, detail=repr(e)[:200], cause=repr(e.__cause__)[:200])
            await asyncio.sleep(0.01)

    async def stop(tagname):
        m["state"] = "stopping"
        obs.ev(loop, "stop_call", tag, why=tagname)
        await consumer.stop()
        m["state"] = "stopped"
        obs.ev(loop, "stop_return", tag)

    try:
        for op in spec.get("ops", []):
            if ctl["draining"]:
                break
            k = op[0]
            if k == "poll":
                await poll(op[1], op[2], op[3] if len(op) > 3 else None)
            elif k == "sleep":
                await asyncio.sleep(op[1])
            elif k == "commit":
                try:
                    await consumer.commit()
                    obs.ev(loop, "commit_ok", tag)
                except KafkaError as e:
                    obs.ev(loop, "commit_failed", tag, error=type(e).__name__)
            elif k == "subscribe":
                subscribe(op[1])
            elif k == "stop":
                await stop("program")
                return
        # default loop until the harness ends the case
        while not ctl["stop_all"]:
            # the application's steady-state polling style: getmany with a timeout, or getone under wait_for (every
            # poll of a quiet topic then ends by cancellation)
            await poll(spec.get("loop_poll", "getmany"), 0.1)
            if spec.get("loop_poll") == "getone":
                await asyncio.sleep(0.001)      # the application handles the record before it polls again
        await stop("final")
    except ConsumerStoppedError:
        obs.ev(loop, "consumer_stopped_error", tag)
    except asyncio.CancelledError:
        raise
    except Exception as e:
        import traceback
        tb = traceback.format_exc()
        cause = e.__cause__
        obs.ev(loop, "crash", tag, error=type(e).__name__, detail=repr(e), cause=repr(cause),
               where=[ln.strip() for ln in tb.splitlines() if "aiokafka" in ln][-6:],
               cause_tb=[ln.strip() for ln in (traceback.format_exception(cause) if cause else []) if "File" in ln][-5:])
        m["state"] = "crashed"


async def _main(case, obs, loop, net):
    cfg = case["cfg"]
    cl = case["cluster"]
    random.seed(case["rng_seed"])
    pers = {}
    if cl.get("join_max") is not None:
        jm = cl["join_max"]
        pers[11] = (0, jm)
        pers[14] = (0, {0: 0, 1: 1, 2: 1, 3: 1, 4: 1, 5: 3}[jm])
    c = Cluster(loop, net, n_nodes=cl["nodes"], personality=pers)
    obs.cluster = c
    c.group_coord_node = cl.get("group_coord", 0) % cl["nodes"]
    for name, n in cl["topics"].items():
        c.add_topic(name, n)
        for p in range(n):
            CS.install_batches(c.log(name, p), [{"fmt": "v2", "kind": "data", "n": k, "ts": [1]}
                                                for k in cl.get("initial", [3, 2])])
    c.set_faults(case.get("faults", []))
    env = []
    for e in case.get("env", []):
        if e["ev"] == "append":
            e = dict(e, ev="call")
            t, p = e["tp"]
            e["fn"] = (lambda t=t, p=p, n=e.get("n", 2): (c.log(t, p) is not None) and
                       CS.install_batches(c.log(t, p), [{"fmt": "v2", "kind": "data", "n": n, "ts": [2]}], c.now_ms()))
        env.append(e)
    c.schedule(env)
    ctl = {"draining": False, "stop_all": False}
    tasks = {}
    for i, spec in enumerate(case["members"]):
        tag = "m%d" % i
        tasks[tag] = asyncio.ensure_future(_member(case, spec, tag, obs, c, loop, net, ctl))
        await asyncio.sleep(0)
    kills = {k["member"]: k for k in case.get("kills", [])}
    if kills:
        seen = {}

        def on_arrival(a):
            tag = a.client_id
            if tag in kills and tag not in net.dead_tags:
                seen[tag] = seen.get(tag, 0) + 1
                if seen[tag] >= kills[tag]["after"]:
                    obs.killed.append((tag, loop._vtime))
                    obs.ev(loop, "killed", tag)
                    if tag in obs.members:
                        obs.members[tag]["state"] = "killed"
                    loop.call_soon(net.kill, tag)
                    for d in (0.001, 0.01, 0.1, 1.0):
                        loop.call_later(d, net.kill, tag)
        c.on_arrival = on_arrival
    sess = cfg["session_timeout_ms"] / 1000.0
    reb = cfg["rebalance_timeout_ms"] / 1000.0
    back = cfg["retry_backoff_ms"] / 1000.0
    rt = cfg["request_timeout_ms"] / 1000.0
    await asyncio.sleep(case.get("run_for", 5.0))
    # ---- quiet point
    c.make_quiet()
    obs.t_quiet = loop._vtime
    obs.ev(loop, "quiet", None)
    t_conv = 3 * (reb + sess) + 20 * back + 2 * cfg.get("metadata_max_age_ms", 1000) / 1000.0 + 4 * rt + 2.0
    obs.bound = t_conv
    ctl["draining"] = True
    await asyncio.sleep(t_conv)
    obs.windows["converged_at"] = loop._vtime
    obs.ev(loop, "converged_mark", None)
    # snapshot assignments of live members
    snap = {}
    for tag, m in obs.members.items():
        if m["state"] == "running":
            try:
                snap[tag] = sorted(tpk(*tp) for tp in m["consumer"].assignment())
            except Exception as e:
                snap[tag] = repr(e)
    obs.windows["assignments"] = snap
    g = c.groups.groups.get(cfg.get("group_id", "g"))
    obs.windows["group_generation"] = g.generation if g else None
    obs.windows["group_members"] = sorted(g.members) if g else []
    obs.windows["group_state"] = g.state if g else None
    stable_for = max(2 * cfg["heartbeat_interval_ms"] / 1000.0 * 3, sess) + 1.0
    await asyncio.sleep(stable_for)
    obs.windows["stable_until"] = loop._vtime
    obs.ev(loop, "stable_mark", None)
    # ---- drain: let survivors read everything, then stop them
    await asyncio.sleep(1.0 + 4 * back)
    ctl["stop_all"] = True
    live = [t for tag, t in tasks.items() if tag not in net.dead_tags]
    if live:
        done, pend = await asyncio.wait(live, timeout=t_conv + 4 * rt + 5.0)
        for tag, t in tasks.items():
            if t in pend:
                obs.hung.append(tag)
                t.cancel()
        if pend:
            await asyncio.wait(pend, timeout=1.0)
    for tag, t in tasks.items():
        if t.done() and not t.cancelled() and t.exception() is not None and tag not in net.dead_tags:
            raise t.exception()
    g = c.groups.groups.get(cfg.get("group_id", "g"))
    obs.windows["members_after_stop"] = sorted(g.members) if g else []


def _run(case):
    if not _SHIMMED[0]:
        setup()
    obs = Obs()
    # sticky assignor state is global (class attributes): reset before every case
    from aiokafka.coordinator.assignors.sticky.sticky_assignor import StickyPartitionAssignor
    StickyPartitionAssignor.member_assignment = None
    StickyPartitionAssignor.generation = -1
    loop = simloop.VirtualLoop(vtime_cap=3600.0)
    net = TaggedNet(loop, latencies=case.get("lat") or [0.001], chunks=case.get("chunks") or [0],
                    connect_latencies=[0.001])
    simloop.set_clock_loop(loop)
    asyncio.set_event_loop(loop)
    try:
        loop.run_until_complete(_main(case, obs, loop, net))
    except (simloop.Deadlock, simloop.VirtualTimeLimit, simloop.BusyLoop) as e:
        obs.deadlock = repr(e)
    except BaseException:
        simloop.finish(loop)
        raise
    obs.vtime = loop._vtime
    c = obs.cluster
    if c is not None:
        for name, parts in c.topics.items():
            for pl in parts:
                obs.final[tpk(name, pl.partition)] = {"decoded": pl.decoded(), "hw": pl.hw, "lso": pl.lso,
                                                      "log_start": pl.log_start, "end": pl.next_offset}
    simloop.finish(loop)
    for m in obs.members.values():
        m["consumer"] = None
    return obs


def run(case):
    """Execute the case (case["debug_log"]: with the library's DEBUG logging switched on); returns Obs."""
    from vlib.core import debug_logging
    with debug_logging(case.get("debug_log")):
        return _run(case)
