"""C19 - stop() always terminates and leaves nothing running (fault enumeration over stop points)."""
import asyncio
import random

from vlib import simloop
from vlib.core import Outcome
from vlib.runner import Campaign
from vlib.simkafka import Cluster

from . import _consumer_sim as CS
from ._txn_sim import CLIENT_TAG, TaggedNet

ID = "C19"
LEVEL = "fault_enumeration"
RULE = ("Each (workload, cluster state) pair is first run without a stop to count its events N (every network "
        "message delivered to a simulated broker, every connection made and every timer firing); it is then re-run "
        "deterministically with stop() issued right after the k-th event, for every k <= N (thorough) or for a "
        "stride of k plus both ends (quick). Workloads: plain / idempotent / transactional producer "
        "(mid-transaction), group consumer (second member joining mid-run), group-less consumer (getmany or getone loop); cluster "
        "states: healthy, one broker refusing or black-holing connections, coordinator unreachable, "
        "coordinator and leaders failing over, coordinator refusing commits with REBALANCE_IN_PROGRESS, one broker accepting connections without ever answering. Non-trivial = stop issued while >=1 request was in flight, or a "
        "rebalance was in progress, or a broker was unreachable. Distinct = distinct (workload, state, k).")
ASSUMPTIONS = ["simulated cluster (vlib/simkafka), virtual-time loop with exact deadlock detection",
               "bound for stop(): 4*request_timeout + session_timeout + rebalance_timeout + 20*retry_backoff + 2 s (virtual)",
               "static members are not used; 'left group' is read from the simulated coordinator's member table"]

_SHIM = [False]
WORKLOADS = ["producer_plain", "producer_idempotent", "producer_txn", "consumer_group", "consumer_groupless",
             # the application drops its subscription/assignment right before stop() (a common shutdown sequence)
             "consumer_group_unsub", "consumer_groupless_unsub",
             # a group-less consumer that subscribes by topic: its assignment is replaced when the topic grows
             "consumer_groupless_subscribe",
             # the application reads record by record (async-for style): its getone() is parked while stop() runs
             "consumer_groupless_getone",
             # the application widens its subscription while the consumer is running (new topic to track, rebalance)
             "consumer_group_resubscribe"]
STATES = ["healthy", "node_refusing", "node_blackholed", "coordinator_refusing", "coordinator_blackholed", "failover",
          "commits_refused", "fenced",
          # the host accepts connections but never answers: stop() lands inside connection handshakes
          "node_silent",
          # the coordinator starts refusing the member's heartbeats with GROUP_AUTHORIZATION_FAILED: the error is handed
          # to the application, which stops polling; stop() then finds an error nobody has picked up yet
          "group_unauthorized"]
CFG = {"request_timeout_ms": 400, "retry_backoff_ms": 20, "session_timeout_ms": 1000, "rebalance_timeout_ms": 800,
       "heartbeat_interval_ms": 100}
RUN_FOR = 1.2


def setup():
    import aiokafka.producer.producer  # noqa
    import aiokafka.consumer.consumer  # noqa
    simloop.install_time_shim()
    _SHIM[0] = True


def bound():
    return (4 * CFG["request_timeout_ms"] + CFG["session_timeout_ms"] + CFG["rebalance_timeout_ms"]
            + 20 * CFG["retry_backoff_ms"]) / 1000.0 + 2.0


async def _scenario(workload, state, stop_at, obs, loop, net):
    from aiokafka import AIOKafkaConsumer, AIOKafkaProducer
    from aiokafka.errors import ConsumerStoppedError, KafkaError, ProducerClosed
    from aiokafka.structs import TopicPartition
    random.seed(7)
    c = Cluster(loop, net, n_nodes=2)
    obs["cluster"] = c
    c.add_topic("t0", 2, leaders=[0, 1])
    if workload == "consumer_group_resubscribe":
        c.add_topic("t1", 1, leaders=[0])
        c.add_topic("t2", 1, leaders=[0])
    c.txn_coord_node = 1
    c.group_coord_node = 1
    for p in range(2):
        CS.install_batches(c.log("t0", p), [{"fmt": "v2", "kind": "data", "n": 3, "ts": [1]}] * 3)
    env = []
    t_ev = 0.35
    if state == "node_refusing":
        env.append({"at": t_ev, "ev": "node_down", "node": 1})
    elif state == "node_blackholed":
        env.append({"at": t_ev, "ev": "node_down", "node": 1, "blackhole": True})
    elif state == "node_silent":
        env.append({"at": t_ev, "ev": "node_down", "node": 1, "silent": True})
    elif state == "coordinator_refusing":
        env.append({"at": t_ev, "ev": "node_down", "node": 1})
    elif state == "coordinator_blackholed":
        env.append({"at": t_ev, "ev": "node_down", "node": 1, "blackhole": True})
    elif state == "failover":
        env += [{"at": t_ev, "ev": "move_group_coord", "to": 0, "keep_state": False}, {"at": t_ev, "ev": "move_txn_coord", "to": 0},
                {"at": t_ev + 0.05, "ev": "move_leader", "topic": "t0", "partition": 1, "to": 0}]
    if state == "fenced":
        # the transaction coordinator fences the producer (INVALID_PRODUCER_EPOCH on its second AddPartitionsToTxn): the
        # sender task ends with a fatal error long before stop() is called
        c.set_faults([{"sel": "add_partitions", "k": 1, "act": "error", "code": 47}])
    if state == "group_unauthorized":
        c.set_faults([{"sel": "heartbeat", "k": k, "act": "error", "code": 30} for k in range(3, 80)])
    if state == "commits_refused":
        # the coordinator answers every OffsetCommit but the first with REBALANCE_IN_PROGRESS (the member's
        # generation stays valid, so it is still a member that has to leave on stop())
        c.set_faults([{"sel": "offset_commit", "k": k, "act": "error", "code": 27} for k in range(1, 80)])
    if state in ("node_refusing", "node_blackholed", "node_silent"):
        # the coordinators live on the healthy node in these two states
        c.txn_coord_node = 0
        c.group_coord_node = 0
    for k in range(8):
        env.append({"at": 0.1 + 0.13 * k, "ev": "call", "fn": (lambda k=k: CS.install_batches(
            c.log("t0", k % 2), [{"fmt": "v2", "kind": "data", "n": 2, "ts": [2]}], c.now_ms()))})
    c.schedule(env)
    CLIENT_TAG.set("main")
    app_tasks = []
    client = None
    kind = "producer" if workload.startswith("producer") else "consumer"
    common = dict(bootstrap_servers=c.bootstrap(), request_timeout_ms=CFG["request_timeout_ms"],
                  retry_backoff_ms=CFG["retry_backoff_ms"], metadata_max_age_ms=500, client_id="main")
    other = None
    if kind == "producer":
        kw = dict(common, linger_ms=5, max_batch_size=200)
        if workload == "producer_idempotent":
            kw["enable_idempotence"] = True
        if workload == "producer_txn":
            kw["transactional_id"] = "tx"
            kw["linger_ms"] = 300      # commits flush lingering batches early: their linger timers must not outlive stop()
        client = AIOKafkaProducer(**kw)
        await client.start()

        async def app():
            try:
                i = 0
                while True:
                    if workload == "producer_txn":
                        await client.begin_transaction()
                    for _ in range(4):
                        await client.send("t0", b"v%d" % i, partition=i % 2)
                        i += 1
                        await asyncio.sleep(0.01)
                    if workload == "producer_txn":
                        await client.commit_transaction()
                    await asyncio.sleep(0.03)
            except (KafkaError, asyncio.CancelledError, AssertionError, Exception):
                return
        app_tasks.append(asyncio.ensure_future(app()))
    else:
        kw = dict(common, auto_offset_reset="earliest", fetch_max_wait_ms=50)
        if workload == "consumer_group_resubscribe":
            kw["metadata_max_age_ms"] = 60000       # no periodic refresh comes to the rescue of a forgotten one
        if workload.startswith("consumer_group") and not workload.startswith("consumer_groupless"):
            kw.update(group_id="g", session_timeout_ms=CFG["session_timeout_ms"], heartbeat_interval_ms=CFG["heartbeat_interval_ms"],
                      rebalance_timeout_ms=CFG["rebalance_timeout_ms"], auto_commit_interval_ms=100)
            client = AIOKafkaConsumer("t0", **kw)
        elif workload == "consumer_groupless_subscribe":
            client = AIOKafkaConsumer("t0", **dict(kw, group_id=None))
            env2 = [{"at": 0.3, "ev": "add_partitions", "topic": "t0", "count": 1},
                    {"at": 0.8, "ev": "add_partitions", "topic": "t0", "count": 1}]
            c.schedule(env2)
        else:
            client = AIOKafkaConsumer(**dict(kw, group_id=None))
            client.assign([TopicPartition("t0", 0), TopicPartition("t0", 1)])
        await client.start()

        async def app():
            try:
                while True:
                    if workload == "consumer_groupless_getone":
                        await client.getone()
                    else:
                        await client.getmany(timeout_ms=50)
            except (KafkaError, ConsumerStoppedError, asyncio.CancelledError, Exception):
                return
        app_tasks.append(asyncio.ensure_future(app()))
        if workload == "consumer_group_resubscribe":
            async def resubscribe():
                await asyncio.sleep(0.36)
                try:
                    client.subscribe(["t0", "t1"])
                    await asyncio.sleep(0.002)       # the metadata refresh forced by the first change is in flight
                    client.subscribe(["t0", "t1", "t2"])
                except Exception:
                    pass
            app_tasks.append(asyncio.ensure_future(resubscribe()))
        if workload.startswith("consumer_group") and not workload.startswith("consumer_groupless"):
            async def second():
                CLIENT_TAG.set("other")
                await asyncio.sleep(0.25)
                o = AIOKafkaConsumer("t0", **dict(kw, client_id="other"))
                obs["other"] = o
                try:
                    await o.start()
                    while True:
                        await o.getmany(timeout_ms=50)
                except (KafkaError, ConsumerStoppedError, asyncio.CancelledError, Exception):
                    return
            other = asyncio.ensure_future(second())
    obs["started_events"] = loop.events
    stop_state = {"task": None}

    async def stopper():
        CLIENT_TAG.set("main")
        obs["stop_call"] = {"t": loop._vtime, "event": loop.events,
                            "inflight": [a.api for a in c.arrivals if a.client_id == "main" and
                                         (a.t_end is None or a.t_end > loop._vtime)][:6],
                            "group_state": (c.groups.groups["g"].state if "g" in c.groups.groups else None),
                            "nodes_down": [n.node_id for n in c.nodes.values() if not n.up]}
        try:
            if workload.endswith("_unsub"):
                client.unsubscribe()
            await client.stop()
            obs["stop_return"] = loop._vtime
        except asyncio.CancelledError:
            obs["stop_error"] = "CancelledError"
            obs["stop_return"] = loop._vtime
        except Exception as e:
            obs["stop_error"] = repr(e)
            obs["stop_return"] = loop._vtime

    if stop_at is None:
        await asyncio.sleep(RUN_FOR)
        obs["events_total"] = loop.events
        stop_state["task"] = asyncio.ensure_future(stopper())
    else:
        fut = loop.create_future()

        def on_event(n):
            if n >= stop_at and stop_state["task"] is None:
                stop_state["task"] = asyncio.ensure_future(stopper())
                loop.on_event = None
                if not fut.done():
                    fut.set_result(None)
        if loop.events >= stop_at:
            on_event(loop.events)
        else:
            loop.on_event = on_event
        await asyncio.wait([fut], timeout=RUN_FOR + 1.0)
        if stop_state["task"] is None:
            stop_state["task"] = asyncio.ensure_future(stopper())
    done, pend = await asyncio.wait([stop_state["task"]], timeout=bound())
    obs["stop_pending"] = bool(pend)
    # group membership as the coordinator sees it at the moment stop() returned
    g = c.groups.groups.get("g")
    obs["members_at_return"] = sorted(m.client_id for m in g.members.values()) if g else []
    coord = c.nodes[c.group_coord_node]
    obs["coordinator_reachable"] = coord.up and state not in ("coordinator_refusing", "coordinator_blackholed", "failover")
    # LeaveGroup is a single best-effort request: a client that has just written its coordinator off (a group request
    # timed out or lost its connection) does not look it up again for it
    t_stop = (obs.get("stop_call") or {}).get("t", 0.0)
    lost = [a.api for a in c.arrivals if a.client_id == "main" and a.api in ("join", "sync", "heartbeat", "offset_commit", "leave")
            and a.t_end is not None and not a.delivered and a.t_end >= t_stop - 1.5]
    # the final commit of stop() answered ILLEGAL_GENERATION / UNKNOWN_MEMBER_ID (the group moved on while the member
    # was stopping): the client forgets its member id before it gets to LeaveGroup - see known_findings.json
    obs["final_commit_refused"] = any(
        a.client_id == "main" and a.api == "offset_commit" and a.t >= t_stop - 1e-9 and a.reply and
        any(p.get("error") in (22, 25) for t in a.reply.get("topics", []) for p in t.get("partitions", []))
        for a in c.arrivals)
    if lost:
        # (with every broker up this only happens when a JoinGroup outlives request_timeout_ms, which this harness sets
        # below the rebalance timeout to keep stop() bounds short - see DESIGN.md 8.6 on that precondition)
        obs["coordinator_reachable"] = False
        obs["coordinator_written_off"] = lost[:4]
    if pend:
        return
    # ---- closed API
    closed = {}
    if kind == "producer":
        for name, topic in (("known_topic", "t0"), ("unknown_topic", "nope")):
            try:
                f = await asyncio.wait_for(client.send(topic, b"x"), 5.0)
                closed[name] = "accepted"
            except ProducerClosed:
                closed[name] = "ProducerClosed"
            except asyncio.TimeoutError:
                closed[name] = "hung"
            except Exception as e:
                closed[name] = type(e).__name__
    else:
        for name, fn in (("getone", lambda: client.getone()), ("getmany", lambda: client.getmany(timeout_ms=10))):
            try:
                await asyncio.wait_for(fn(), 5.0)
                closed[name] = "returned"
            except ConsumerStoppedError:
                closed[name] = "ConsumerStoppedError"
            except asyncio.TimeoutError:
                closed[name] = "hung"
            except Exception as e:
                closed[name] = type(e).__name__
    obs["closed_api"] = closed
    # ---- calls that were in progress when stop() was called end as well (the application loops above leave on the
    # stopped/closed error): a call parked on a stopped client for good keeps the application's own task alive
    if kind == "consumer":
        d2, p2 = await asyncio.wait(app_tasks, timeout=2.0)
        obs["app_calls_blocked"] = len(p2)
        if p2:
            import traceback
            obs["app_blocked_at"] = ["%s:%d %s" % (f.f_code.co_filename.rsplit("/", 1)[-1], f.f_lineno, f.f_code.co_name)
                                     for t in p2 for f in t.get_stack()][:6]
            cr = next(iter(p2)).get_coro()
            chain = []
            while cr is not None and len(chain) < 12:
                fr = getattr(cr, "cr_frame", None) or getattr(cr, "gi_frame", None)
                if fr is not None:
                    chain.append("%s:%d %s" % (fr.f_code.co_filename.rsplit("/", 1)[-1], fr.f_lineno, fr.f_code.co_name))
                cr = getattr(cr, "cr_await", None) or getattr(cr, "gi_yieldfrom", None)
            obs["app_blocked_chain"] = chain
    # ---- nothing left: stop the harness' own tasks, then look at what remains of the client
    for t in app_tasks:
        t.cancel()
    if other is not None:
        other.cancel()
        o = obs.get("other")
        await asyncio.sleep(0)
        if o is not None:
            CLIENT_TAG.set("other")
            ot = asyncio.ensure_future(o.stop())
            await asyncio.wait([ot], timeout=bound())
            if not ot.done():
                ot.cancel()
            elif not ot.cancelled():
                ot.exception()
            CLIENT_TAG.set("main")
    await asyncio.sleep(0.01)
    cur = asyncio.current_task()
    left_tasks = []
    for t in asyncio.all_tasks(loop):
        if t is cur or t.done():
            continue
        try:
            tag = t.get_context().get(CLIENT_TAG)
        except Exception:
            tag = None
        if tag == "main":
            left_tasks.append(repr(t.get_coro())[:120])
    obs["left_tasks"] = left_tasks
    timers = []
    for h in loop.pending_timers():
        cb = getattr(h._callback, "_v_inner", h._callback)
        r = repr(cb)
        if "aiokafka" in r or "AIOKafka" in r or _client_callback(cb):
            who = ""
            for a in (h._args or ()):
                try:
                    o = a() if callable(a) else a
                    who += (" " + repr(o)[:80] + " connected=%s tag=%s" % (o.connected(), getattr(getattr(getattr(getattr(o, "_writer", None), "transport", None), "_peer", None), "tag", "?"))) if o is not None else " <dead ref>"
                except Exception:
                    pass
            timers.append(r[:120] + who)
    obs["left_timers"] = timers
    obs["left_transports"] = len([tr for tr in net.open_transports if getattr(tr._peer, "tag", None) == "main"])
    # objects the client dropped without closing them report themselves through the loop's exception handler
    import gc
    gc.collect()
    obs["unclosed_reports"] = [e["message"] for e in loop.exc_log
                               if "Unclosed" in str(e.get("message")) and e.get("tag") == "main"][:5]


def _client_callback(cb):
    """Is this timer callback a function/method defined by the client library?  (repr() of a plain function or
    staticmethod does not name its module.)"""
    import functools
    for _ in range(4):
        if isinstance(cb, functools.partial):
            cb = cb.func
            continue
        break
    mods = [getattr(cb, "__module__", None), getattr(getattr(cb, "__func__", None), "__module__", None),
            getattr(type(getattr(cb, "__self__", None)), "__module__", None)]
    return any(isinstance(m, str) and m.startswith("aiokafka") for m in mods)


def run(workload, state, stop_at):
    if not _SHIM[0]:
        setup()
    obs = {}
    loop = simloop.VirtualLoop(vtime_cap=600.0)
    net = TaggedNet(loop, latencies=[0.002, 0.004, 0.001], chunks=[0], connect_latencies=[0.001])
    simloop.set_clock_loop(loop)
    asyncio.set_event_loop(loop)
    loop.set_exception_handler(lambda lp, ctx: lp.exc_log.append(
        {"message": ctx.get("message"), "exception": repr(ctx.get("exception")), "tag": CLIENT_TAG.get(None)}))
    try:
        loop.run_until_complete(_scenario(workload, state, stop_at, obs, loop, net))
    except (simloop.Deadlock, simloop.VirtualTimeLimit, simloop.BusyLoop) as e:
        obs["deadlock"] = repr(e)
    except BaseException:
        simloop.finish(loop)
        raise
    obs["vtime"] = loop._vtime
    simloop.finish(loop)
    return obs


def execute(case):
    w, s, k = case["workload"], case["state"], case["k"]
    obs = run(w, s, k)
    out = Outcome()
    c = obs.get("cluster")
    if c is not None:
        for e in c.harness_errors:
            raise RuntimeError("simulator error: %s" % e)
    site = w
    sc = obs.get("stop_call") or {}
    det = {"workload": w, "state": s, "k": k, "stop_call": sc}
    if obs.get("deadlock"):
        out.fail("returns", site + ":deadlock", dict(det, deadlock=obs["deadlock"]))
    elif obs.get("stop_pending"):
        out.fail("returns", site + ":not_within_bound", dict(det, bound=bound()),
                 broker_unreachable=bool(sc.get("nodes_down")) or s in ("node_refusing", "node_blackholed", "node_silent",
                                                                        "coordinator_refusing", "coordinator_blackholed"))
    elif obs.get("stop_error"):
        out.fail("returns", site + ":raised:" + obs["stop_error"].split("(")[0], dict(det, error=obs["stop_error"]))
    if "stop_return" in obs and not obs.get("stop_pending"):
        if obs.get("left_tasks"):
            out.fail("nothing_left", site + ":tasks", dict(det, tasks=obs["left_tasks"][:5]))
        if obs.get("left_timers"):
            out.fail("nothing_left", site + ":timers", dict(det, timers=obs["left_timers"][:5]))
        if obs.get("left_transports"):
            out.fail("nothing_left", site + ":connections", dict(det, open=obs["left_transports"]))
        if obs.get("unclosed_reports"):
            out.fail("nothing_left", site + ":dropped_unclosed", dict(det, reports=obs["unclosed_reports"]))
        for name, res in (obs.get("closed_api") or {}).items():
            want = "ProducerClosed" if w.startswith("producer") else "ConsumerStoppedError"
            if res != want:
                out.fail("closed_api", "%s:%s:%s" % (site, name, res), dict(det, result=res, want=want))
        if obs.get("app_calls_blocked"):
            out.fail("closed_api", site + ":call_in_progress_never_returned", dict(det, blocked=obs["app_calls_blocked"], where=obs.get("app_blocked_chain")))
        if w in ("consumer_group", "consumer_group_unsub", "consumer_group_resubscribe") and obs.get("coordinator_reachable") \
                and "main" in obs.get("members_at_return", []):
            out.fail("left_group", site + ":still_a_member", dict(det, members=obs["members_at_return"]),
                     generation_reset_by_refused_final_commit=bool(obs.get("final_commit_refused")))
    out.nontrivial = bool(sc.get("inflight") or sc.get("nodes_down") or sc.get("group_state") in ("PreparingRebalance", "CompletingRebalance"))
    out.label("w_" + w, "s_" + s)
    if sc.get("inflight"):
        out.label("request_in_flight_at_stop")
    if sc.get("group_state") in ("PreparingRebalance", "CompletingRebalance"):
        out.label("rebalance_in_progress_at_stop")
    if sc.get("nodes_down"):
        out.label("broker_unreachable_at_stop")
    if obs.get("coordinator_written_off"):
        out.label("coordinator_written_off_and_lookup_may_fail")
    out.info = {"stop_took": round(obs.get("stop_return", 0) - sc.get("t", 0), 4) if "stop_return" in obs else None,
                "closed_api": obs.get("closed_api")}
    return out


_N_CACHE = {}


def total_events(w, s):
    key = (w, s)
    if key not in _N_CACHE:
        o = run(w, s, None)
        _N_CACHE[key] = (o.get("started_events", 1), o.get("events_total", 50))
    return _N_CACHE[key]


def cases(shard, nshards, stride):
    i = 0
    for w in WORKLOADS:
        for s in STATES:
            if w in ("producer_plain", "consumer_groupless", "consumer_groupless_unsub", "consumer_groupless_subscribe",
                     "consumer_groupless_getone") \
                    and s.startswith("coordinator"):
                continue          # no coordinator involved
            if s == "commits_refused" and w not in ("consumer_group", "consumer_group_unsub", "consumer_group_resubscribe"):
                continue
            if s == "fenced" and w != "producer_txn":
                continue
            if s == "group_unauthorized" and w not in ("consumer_group", "consumer_group_unsub", "consumer_group_resubscribe"):
                continue
            if i % nshards != shard and stride is None:
                pass
            lo, hi = total_events(w, s)
            ks = list(range(lo, hi + 1))
            if stride:
                ks = sorted(set(ks[::stride] + [lo, hi]))
            for k in ks:
                if i % nshards == shard:
                    yield {"workload": w, "state": s, "k": k}
                i += 1


def campaigns(tier):
    th = tier == "thorough"
    return [Campaign("stop_points", "enum", execute=execute, cases=lambda sh, n: cases(sh, n, None if th else 3),
                     exhaustive=th, setup=setup)]
