#!/venv/bin/python
"""Run registered checks against the seeded changes kept under /verif/seeded/<ID>/<seed>/patch.diff.

usage: tools/try_seeds.py [ID[/seed] ...] [--tier quick] [--props C01,C02]   (default: every seed against its own property)
The change is applied to a scratch copy of /repo's package (outside /repo and /verif), the check runs with
VERIF_REPO pointing at it and scratch evidence/out dirs, the copy is removed.  Result is written to
seeded/<ID>/<seed>/check_<PROP>_<tier>.json and summarised on stdout.
"""
import json, os, shutil, subprocess, sys, tempfile, time

HERE = os.path.dirname(os.path.dirname(os.path.abspath(__file__)))


def run_one(pid, seed, prop, tier):
    sd = os.path.join(HERE, "seeded", pid, seed)
    patch = os.path.join(sd, "patch.diff")
    d = tempfile.mkdtemp(prefix="vseed.", dir="/tmp")
    t0 = time.time()
    try:
        shutil.copytree("/repo/aiokafka", os.path.join(d, "aiokafka"), ignore=shutil.ignore_patterns("__pycache__", "*.so", "*.pyc"))
        r = subprocess.run(["patch", "-p1", "-s", "-i", patch], cwd=d, stdout=subprocess.PIPE, stderr=subprocess.STDOUT, text=True)
        if r.returncode != 0:
            return {"error": "patch failed: " + r.stdout[-300:]}
        env = dict(os.environ, VERIF_REPO=d, VERIF_OUT_DIR=os.path.join(d, "out"), VERIF_EVIDENCE_DIR=os.path.join(d, "evidence"))
        r = subprocess.run([os.path.join(HERE, "check"), prop, "--tier", tier], env=env, cwd=HERE,
                           stdout=subprocess.PIPE, stderr=subprocess.STDOUT, text=True)
        lines = r.stdout.splitlines()
        viol = [l for l in lines if l.startswith("VIOLATION")]
        sigs = sorted({l.split("[", 1)[1].rstrip("]") for l in viol if "[" in l})
        summ = [l for l in lines if l.startswith(prop + " ")]
        res = {"seed": "%s/%s" % (pid, seed), "check": prop, "tier": tier, "rc": r.returncode,
               "verdict": {0: "MISSED", 1: "CAUGHT", 2: "HARNESS_ERROR"}.get(r.returncode, "?"),
               "signatures": sigs[:12], "summary": summ[-1] if summ else "", "wall": round(time.time() - t0, 1)}
        if r.returncode == 2:
            res["tail"] = r.stdout[-1500:]
        if r.returncode == 1 and "--save" in sys.argv:
            for l in viol:
                rp = l.split("replay=")[1].split()[0]
                src = rp if os.path.isabs(rp) else os.path.normpath(os.path.join(HERE, rp))
                if src.startswith(d) and os.path.exists(src):
                    dst = os.path.join(HERE, "regress", prop)
                    os.makedirs(dst, exist_ok=True)
                    shutil.copy(src, os.path.join(dst, "seed_%s_%s.json" % (pid, seed)))
                    res["saved_replay"] = "regress/%s/seed_%s_%s.json" % (prop, pid, seed)
                    break
        return res
    finally:
        shutil.rmtree(d, ignore_errors=True)


def main():
    a = [x for x in sys.argv[1:] if not x.startswith("--")]
    tier = sys.argv[sys.argv.index("--tier") + 1] if "--tier" in sys.argv else "quick"
    props = sys.argv[sys.argv.index("--props") + 1].split(",") if "--props" in sys.argv else None
    a = [x for x in a if x != tier and (props is None or x != ",".join(props))]
    todo = []
    root = os.path.join(HERE, "seeded")
    for pid in sorted(os.listdir(root)):
        if not os.path.isdir(os.path.join(root, pid)):
            continue
        for seed in sorted(os.listdir(os.path.join(root, pid))):
            if not os.path.exists(os.path.join(root, pid, seed, "patch.diff")):
                continue
            if a and pid not in a and "%s/%s" % (pid, seed) not in a:
                continue
            for prop in (props or [pid]):
                todo.append((pid, seed, prop))
    rc = 0
    for pid, seed, prop in todo:
        res = run_one(pid, seed, prop, tier)
        json.dump(res, open(os.path.join(root, pid, seed, "check_%s_%s.json" % (prop, tier)), "w"), indent=1)
        print("%s/%s vs %s %s: %s %s (%ss) %s" % (pid, seed, prop, tier, res.get("verdict", res.get("error")),
                                                 res.get("signatures", [])[:4], res.get("wall"), res.get("summary", "")), flush=True)
        if res.get("verdict") != "CAUGHT":
            rc = 1
    return rc


sys.exit(main())
