"""C17 - keyed records choose the same partition as the Java client.

Oracle: an independent transcription of org.apache.kafka.common.utils.Utils.murmur2
in emulated Java int32 arithmetic (signed bytes, wrapping multiply, >>>), and
Utils.toPositive(h) % numPartitions.
"""
import itertools
import random

from vlib.core import Outcome
from vlib.runner import Campaign

ID = "C17"
LEVEL = "exploration"
RULE = ("Cases: (key bytes, list of partition counts, availability subset). Exhaustive campaigns "
        "enumerate every key of length 0..2 and every key of length 0..7 over {00,7f,80,ff}; "
        "random campaigns draw keys up to 4 KiB, counts 1..1000, and unkeyed calls; the producer_path campaign "
        "calls AIOKafkaProducer._partition (what send() uses) over metadata snapshots with leaderless partitions. "
        "Non-trivial = keyed case whose key has a tail (len % 4 != 0) or a byte >= 0x80 "
        "(sign-extension sensitive), or an unkeyed case with a non-empty proper availability "
        "subset. Distinct = distinct case value.")
ASSUMPTIONS = ["reference transcription of Java Utils.murmur2/toPositive in vlib-free code in props/c17.py",
               "all_partitions is passed sorted by partition id, as the partitioner's contract states"]


def _i32(x):
    x &= 0xFFFFFFFF
    return x - 0x100000000 if x & 0x80000000 else x


def _ushr(x, n):
    return (x & 0xFFFFFFFF) >> n


def java_murmur2(data):
    """Java semantics: byte is signed, int arithmetic wraps, >>> is logical."""
    sdata = [b - 256 if b > 127 else b for b in data]      # Java byte[]
    length = len(sdata)
    seed = _i32(0x9747B28C)
    m = 0x5BD1E995
    r = 24
    h = _i32(seed ^ length)
    length4 = length // 4
    for i in range(length4):
        i4 = i * 4
        k = _i32((sdata[i4] & 0xFF) + ((sdata[i4 + 1] & 0xFF) << 8)
                 + ((sdata[i4 + 2] & 0xFF) << 16) + ((sdata[i4 + 3] & 0xFF) << 24))
        k = _i32(k * m)
        k = _i32(k ^ _ushr(k, r))
        k = _i32(k * m)
        h = _i32(h * m)
        h = _i32(h ^ k)
    rem = length % 4
    base = length & ~3
    if rem == 3:
        h = _i32(h ^ ((sdata[base + 2] & 0xFF) << 16))
    if rem >= 2:
        h = _i32(h ^ ((sdata[base + 1] & 0xFF) << 8))
    if rem >= 1:
        h = _i32(h ^ (sdata[base] & 0xFF))
        h = _i32(h * m)
    h = _i32(h ^ _ushr(h, 13))
    h = _i32(h * m)
    h = _i32(h ^ _ushr(h, 15))
    return h


def java_partition(key, n):
    return (java_murmur2(key) & 0x7FFFFFFF) % n


# self-test vectors of the reference (from Kafka's UtilsTest.testMurmur2)
_VECTORS = {b"21": -973932308, b"foobar": -790332482, b"a-little-bit-long-string": -985981536,
            b"a-little-bit-longer-string": -1486304829,
            b"lkjh234lh9fiuh90y23oiuhsafujhadof229phr9h19h89h8": -58897971,
            bytes([ord("a"), ord("b"), ord("c")]): 479470107}
for _k, _v in _VECTORS.items():
    assert java_murmur2(_k) == _v, ("reference murmur2 self-test failed", _k)

NS = [1, 2, 3, 5, 6, 7, 12, 100, 1000]


def _keyed(key, ns, avail_bits, ids_offset):
    from aiokafka.partitioner import DefaultPartitioner, murmur2
    out = Outcome()
    out.nontrivial = (len(key) % 4 != 0) or any(b >= 0x80 for b in key)
    if len(key) % 4:
        out.label("tail_%d" % (len(key) % 4))
    if any(b >= 0x80 for b in key):
        out.label("high_bit")
    ref = java_murmur2(key)
    try:
        got = murmur2(key)
    except Exception as e:  # murmur2 must accept any bytes
        out.fail("java_equal", "murmur2_raises", {"key": key, "error": repr(e)})
        return out
    if (got & 0xFFFFFFFF) != (ref & 0xFFFFFFFF):
        out.fail("java_equal", "murmur2", {"key": key, "got": got, "java": ref})
    p = DefaultPartitioner()
    for n in ns:
        allp = [i + ids_offset for i in range(n)]
        avail = [allp[i] for i in range(n) if (avail_bits >> (i % 60)) & 1]
        want = allp[java_partition(key, n)]
        try:
            res = p(key, list(allp), list(avail))
        except Exception as e:
            out.fail("java_equal", "partitioner_raises", {"key": key, "n": n, "avail": avail, "error": repr(e)})
            continue
        if res != want:
            site = "partition"
            # does the answer change with availability? then it is the dependence clause
            try:
                res_all = p(key, list(allp), list(allp))
            except Exception:
                res_all = None
            if res_all == want:
                site = "depends_on_available"
            out.fail("java_equal", site, {"key": key, "n": n, "avail": avail, "got": res, "java": want})
    return out


def exec_keyed(case):
    return _keyed(case["key"], case["ns"], case["avail_bits"], case.get("ids_offset", 0))


def exec_unkeyed(case):
    from aiokafka.partitioner import DefaultPartitioner
    out = Outcome()
    n = case["n"]
    allp = list(range(n))
    avail = [i for i in range(n) if (case["avail_bits"] >> (i % 60)) & 1]
    rs = random.Random(case["rng_seed"])
    rs.shuffle(avail)
    out.nontrivial = 0 < len(avail) < n
    out.label("avail_empty" if not avail else ("avail_all" if len(avail) == n else "avail_proper"))
    p = DefaultPartitioner()
    random.seed(case["rng_seed"])
    seen = set()
    for _ in range(case["calls"]):
        try:
            r = p(None, list(allp), list(avail))
        except Exception as e:
            out.fail("unkeyed_available", "raises", {"n": n, "avail": avail, "error": repr(e)})
            return out
        seen.add(r)
        if avail:
            if r not in avail:
                out.fail("unkeyed_available", "not_in_available", {"n": n, "avail": avail, "got": r})
                return out
        elif r not in allp:
            out.fail("unkeyed_available", "not_in_all", {"n": n, "got": r})
            return out
    return out


def exec_producer_path(case):
    """The code path send() uses: AIOKafkaProducer._partition over the producer's cluster metadata, in which some
    partitions have no leader.  Keyed: Java's partition regardless of availability; unkeyed: an available one."""
    import asyncio
    from aiokafka.producer import AIOKafkaProducer
    from aiokafka.protocol.metadata import MetadataResponse_v0
    out = Outcome()
    n = case["n"]
    unavailable = {i for i in range(n) if not (case["avail_bits"] >> (i % 60)) & 1}
    avail = set(range(n)) - unavailable
    out.nontrivial = 0 < len(avail) < n
    out.label("producer_path", "avail_empty" if not avail else ("avail_all" if len(avail) == n else "avail_proper"))

    async def main():
        producer = AIOKafkaProducer(bootstrap_servers="127.0.0.1:1")      # never started: no I/O
        # brokers list partitions in any order and lead them from any node id (0 included)
        rs = random.Random(case["rng_seed"])
        nodes = [0, 1, 2][:1 + case["rng_seed"] % 3]
        parts = [(0, q, -1 if q in unavailable else nodes[q % len(nodes)], [0], [0] if q not in unavailable else [])
                 for q in range(n)]
        if case.get("shuffle", True):
            rs.shuffle(parts)
        if case.get("n_before"):
            # an earlier refresh saw the topic with another partition count (grown since, or deleted and re-created)
            nb = case["n_before"] if case["n_before"] > 0 else n      # -1: same count, only the leaders change
            producer._metadata.update_metadata(MetadataResponse_v0(
                [(i, "127.0.0.1", 9092 + i) for i in nodes], [(0, "t", [(0, q, nodes[q % len(nodes)], [0], [0]) for q in range(nb)])]))
            out.label("partition_count_changed_" + ("down" if nb > n else "up" if nb < n else "same"))
            # ... and the producer was already used with that view (anything derived from it is stale now)
            try:
                producer._partition("t", None, None, b"v", None, b"v")
                producer._partition("t", None, b"k", b"v", b"k", b"v")
            except Exception as e:
                out.fail("unkeyed_available", "producer_path_raises", {"n": nb, "unavailable": [], "error": repr(e)})
        producer._metadata.update_metadata(MetadataResponse_v0([(i, "127.0.0.1", 9092 + i) for i in nodes], [(0, "t", parts)]))
        got_parts = producer._metadata.partitions_for_topic("t")
        if got_parts is None or set(got_parts) != set(range(n)):
            # the partition count the hash is reduced by must be the topic's, whatever leaders exist
            out.fail("java_equal", "producer_path_partition_set_depends_on_available",
                     {"n": n, "unavailable": sorted(unavailable), "partitions_for_topic": sorted(got_parts or [])})
            producer._closed = True
            return
        random.seed(case["rng_seed"])
        for key in case["keys"]:
            want = java_partition(key, n)
            try:
                got = producer._partition("t", None, key, b"v", key, b"v")
            except Exception as e:
                out.fail("java_equal", "producer_path_raises", {"key": key, "n": n, "unavailable": sorted(unavailable), "error": repr(e)})
                continue
            if got != want:
                out.fail("java_equal", "producer_path_depends_on_available" if avail != set(range(n)) else "producer_path_partition",
                         {"key": key, "n": n, "unavailable": sorted(unavailable), "got": got, "java": want})
        for _ in range(case["calls"]):
            try:
                got = producer._partition("t", None, None, b"v", None, b"v")
            except Exception as e:
                out.fail("unkeyed_available", "producer_path_raises", {"n": n, "unavailable": sorted(unavailable), "error": repr(e)})
                break
            if (avail and got not in avail) or got not in range(n):
                out.fail("unkeyed_available", "producer_path_not_in_available", {"n": n, "unavailable": sorted(unavailable), "got": got})
                break
        if case.get("explicit") is not None:
            q = case["explicit"] % n
            if producer._partition("t", q, b"k", b"v", b"k", b"v") != q:
                out.fail("java_equal", "producer_path_explicit_partition_changed", {"n": n, "partition": q})
        producer._closed = True      # silences the "Unclosed AIOKafkaProducer" warning of __del__
        # ---- the same through send() itself, with a key serializer: what is hashed are the key bytes on the wire
        kind = case.get("ser")
        ser = {None: None, "prefix": lambda k: None if k is None else b"\xc3\xa9/" + k,
               "utf8": lambda k: None if k is None else k.encode("utf-8")}[kind]
        p2 = AIOKafkaProducer(bootstrap_servers="127.0.0.1:1", key_serializer=ser)
        p2._metadata.update_metadata(MetadataResponse_v0([(i, "127.0.0.1", 9092 + i) for i in nodes], [(0, "t", parts)]))
        sent = []

        async def no_wait(topic):
            return None

        async def add_message(tp, key, value, timeout, timestamp_ms=None, headers=[]):
            sent.append((tp, key))
            return asyncio.get_running_loop().create_future()
        p2.client._wait_on_metadata = no_wait
        p2._message_accumulator.add_message = add_message
        for key in case["keys"]:
            user_key = key.decode("latin-1") if kind == "utf8" else key
            wire = ser(user_key) if ser else key
            del sent[:]
            try:
                await p2.send("t", b"v", key=user_key)
            except Exception as e:
                out.fail("java_equal", "send_path_raises", {"key": key, "serializer": kind, "error": repr(e)})
                continue
            if len(sent) != 1 or sent[0][1] != wire:
                out.fail("java_equal", "send_path_key_bytes", {"key": key, "serializer": kind, "queued": sent})
            elif sent[0][0].partition != java_partition(wire, n):
                out.fail("java_equal", "send_path_partition", {"key": key, "serializer": kind, "wire_key": wire, "n": n,
                                                               "got": sent[0][0].partition, "java": java_partition(wire, n)})
        out.label("send_path_serializer_%s" % kind)
        p2._closed = True

    loop = asyncio.new_event_loop()
    try:
        loop.run_until_complete(main())
    finally:
        loop.close()
    return out


def _strat_producer_path():
    from hypothesis import strategies as st
    byte_biased = st.one_of(st.sampled_from([0, 1, 0x7F, 0x80, 0xFF]), st.integers(0, 255))
    keys = st.one_of(st.binary(max_size=24), st.lists(byte_biased, max_size=12).map(bytes))
    return st.fixed_dictionaries({
        "n": st.one_of(st.integers(1, 12), st.integers(1, 200)),
        "avail_bits": st.one_of(st.just(0), st.integers(0, (1 << 60) - 1), st.just((1 << 60) - 1),
                                st.integers(0, 59).map(lambda i: ((1 << 60) - 1) ^ (1 << i)),
                                st.integers(0, 59).map(lambda i: 1 << i)),
        "keys": st.lists(keys, min_size=1, max_size=6),
        "calls": st.integers(0, 8),
        "rng_seed": st.integers(0, 2 ** 32),
        "explicit": st.one_of(st.none(), st.integers(0, 500)),
        "ser": st.sampled_from([None, "prefix", "utf8"]),
        "n_before": st.one_of(st.none(), st.none(), st.integers(1, 12), st.integers(1, 200), st.just(-1)),
    })


def _short_keys(shard, nshards):
    i = 0
    for length in (0, 1, 2):
        for t in itertools.product(range(256), repeat=length):
            if i % nshards == shard:
                yield {"key": bytes(t), "ns": NS, "avail_bits": (i * 2654435761) & ((1 << 60) - 1),
                       "ids_offset": 0}
            i += 1


def _tail_keys(shard, nshards, maxlen):
    alpha = (0x00, 0x7F, 0x80, 0xFF)
    i = 0
    for length in range(0, maxlen + 1):
        for t in itertools.product(alpha, repeat=length):
            if i % nshards == shard:
                yield {"key": bytes(t), "ns": NS, "avail_bits": (i * 40503) & ((1 << 60) - 1),
                       "ids_offset": 3 if i % 5 == 0 else 0}
            i += 1


def _strat_keyed():
    from hypothesis import strategies as st
    byte_biased = st.one_of(st.sampled_from([0, 1, 0x7F, 0x80, 0xFF]), st.integers(0, 255))
    keys = st.one_of(
        st.binary(max_size=64),
        st.lists(byte_biased, max_size=40).map(bytes),
        st.binary(min_size=65, max_size=4096),
    )
    return st.fixed_dictionaries({
        "key": keys,
        "ns": st.lists(st.integers(1, 1000), min_size=1, max_size=4),
        "avail_bits": st.integers(0, (1 << 60) - 1),
        "ids_offset": st.sampled_from([0, 0, 7]),
    })


def _strat_unkeyed():
    from hypothesis import strategies as st
    return st.fixed_dictionaries({
        "n": st.integers(1, 64),
        "avail_bits": st.one_of(st.just(0), st.integers(0, (1 << 60) - 1), st.just((1 << 60) - 1)),
        "rng_seed": st.integers(0, 2 ** 32),
        "calls": st.integers(1, 12),
    })


def campaigns(tier):
    thorough = tier == "thorough"
    return [
        Campaign("short_keys", "enum", execute=exec_keyed, cases=_short_keys, exhaustive=True),
        Campaign("tail_keys", "enum", execute=exec_keyed,
                 cases=lambda s, n: _tail_keys(s, n, 8 if thorough else 7), exhaustive=True),
        Campaign("random_keys", "hyp", execute=exec_keyed, strategy=_strat_keyed,
                 examples=60000 if thorough else 4000),
        Campaign("unkeyed", "hyp", execute=exec_unkeyed, strategy=_strat_unkeyed,
                 examples=20000 if thorough else 2000),
        Campaign("producer_path", "hyp", execute=exec_producer_path, strategy=_strat_producer_path,
                 examples=20000 if thorough else 1600),
    ]
