"""C09 - record batches round-trip and both codec implementations agree.

Oracle: vlib.refrecords (independent v0/v1/v2 codec, own varints / CRC-32C / framing).
Expectations are computed from the case value and the reference encoder only.

Clauses
  wellformed       builder output equals the reference encoding of the accepted records
                   (byte-exact when uncompressed; header fields, CRC and the decompressed,
                   canonical record payload when compressed).
  size_accounting  size()/size_in_bytes()/estimate_size_in_bytes()/record_overhead(), the
                   batch_size limit protocol and the metadata returned by append().
  cross_decode     every reader implementation, given one top-level entry built by any
                   builder or by the reference, reports the expected batch fields and records.
  concat           MemoryRecords (both implementations) yields the entries of a buffer one by
                   one, each with its own format, ignoring a trailing partial entry.

Failure site = "<implementation>.<format>.<what>" (implementation: cy = compiled classes,
py = *_Py classes beside the extension, purepy = AIOKAFKA_NO_EXTENSIONS=1 process).
"""
import os
import struct

from vlib import refrecords as R
from vlib.core import LibraryFault, HarnessError, Outcome

from . import _rec_common as rc

ID = "C09"
LEVEL = "exploration"
RULE = ("Cases are drawn by Hypothesis. build_*: (magic 0/1/2, codec valid for the magic, 1..12 records "
        "with null/empty/patterned keys and values of length 0..300 or at 62..65/127/128/8190..8193 "
        "(1048575/1048576/70000 in build_huge), 0..3 or 63..65 headers with null values and non-ASCII keys, "
        "timestamps anywhere in [0, 2^63-1] incl. decreasing and deltas beyond int32, occasionally None, "
        "transactional flag, producer id/epoch/sequence extremes incl. late set_producer_state, "
        "batch_size = reference size of a record prefix + d, |d|<=3 or far off); every builder "
        "implementation builds it, every reader implementation and MemoryRecords decode it. "
        "ref_decode/concat_mixed: 0..4 batches encoded by the reference codec (base offset, compaction gaps, "
        "LogAppendTime, control/transactional bits, leader epoch, producer fields, compacted v1 wrapper heads, "
        "empty v2 batches) or by a builder, concatenated, plus a trailing partial entry; ref_decode uses one "
        "magic per buffer, concat_mixed non-decreasing magics with at least two formats. *_purepy repeat the "
        "same in an AIOKAFKA_NO_EXTENSIONS=1 interpreter. "
        "Non-trivial = a batch with >=2 records of which one has a header or a null key/value, or any "
        "key/value/header length or header count at a varint boundary (63, 64, 8191, 8192, 1048575, 1048576), "
        "or a buffer with two different magics. Distinct = distinct case value.")
ASSUMPTIONS = [
    "vlib.refrecords is a correct transcription of the Kafka v0/v1/v2 formats (self-checked CRC-32C vectors)",
    "zlib and the cramjam snappy/lz4/zstd primitives are shared by the reference and the code under test "
    "(compression itself is not under test, only framing/placement)",
    "produce-side v0/v1 compressed wrappers may leave the wrapper offset/timestamp blank (KIP-31: the broker "
    "assigns them); counted in labels wrapper_offset_blank / wrapper_ts_not_max, a violation only with "
    "VERIF_C09_STRICT_WRAPPER=1",
    "builder preconditions as respected by the producer: offsets 0,1,2,..., int timestamps >= 0 or None, "
    "headers list of (str, bytes|None), no append after a refusal, build() once, at least one record",
]

BIG_BATCH = (1 << 31) - 1
STRICT_WRAPPER = bool(os.environ.get("VERIF_C09_STRICT_WRAPPER"))


# =============================================================================== builders
def _run_v2_builder(out, impl, recs, codec, opts, bs):
    """Drive one v2 builder like BatchBuilder does.  -> (bytes, accepted records) or None."""
    nm = impl.name

    def site(w):
        return "%s.v2.%s" % (nm, w)

    def bad(w, detail):
        out.fail("size_accounting", site(w), detail, builder=nm, magic=2, codec=codec)

    pid, epoch, seq = opts["pid"], opts["epoch"], opts["seq"]
    B = impl.V2Builder
    try:
        b = B(2, codec, opts["tx"], pid, epoch, seq, bs)
        size_ref = rc.V2_HEADER_SIZE
        first_ts = None
        acc = []
        for i, r in enumerate(recs):
            key, value, headers = r["key"], r["value"], list(r["headers"])
            ts_in = r["ts"]
            need_ref = None
            if ts_in is not None:
                tsd = 0 if first_ts is None else ts_in - first_ts
                need_ref = len(R.enc_v2_record(i, tsd, key, value, headers))
                sib = b.size_in_bytes(i, ts_in, key, value, headers)
                if sib != need_ref:
                    bad("size_in_bytes", {"index": i, "got": sib, "want": need_ref})
            est = B.estimate_size_in_bytes(key, value, headers)
            so = B.size_of(key, value, headers)
            kvh = rc.kvh_size(key, value, headers)
            if so != kvh:
                bad("size_of", {"index": i, "got": so, "want": kvh})
            before = b.size()
            if before != size_ref:
                bad("size", {"index": i, "got": before, "want": size_ref, "when": "before append"})
            t_lo = rc.now_ms()
            md = b.append(i, ts_in, key, value, headers)
            t_hi = rc.now_ms()
            if md is None:
                out.label("append_refused")
                if i == 0:
                    bad("first_append_refused", {"batch_size": bs})
                elif need_ref is not None and not (size_ref + need_ref >= bs):
                    bad("refused_but_fits", {"index": i, "size": size_ref, "needed": need_ref, "batch_size": bs})
                if need_ref is not None and size_ref + need_ref == bs:
                    out.label("boundary_equal_refused")
                if b.size() != size_ref:
                    bad("size", {"index": i, "got": b.size(), "want": size_ref, "when": "after refused append"})
                break
            ts = ts_in
            if ts_in is None:
                out.label("timestamp_now")
                ts = md.timestamp
                if not (isinstance(ts, int) and t_lo - 1 <= ts <= t_hi + 1):
                    bad("metadata_timestamp_now", {"index": i, "got": ts, "window": [t_lo, t_hi]})
                    return None
                tsd = 0 if first_ts is None else ts - first_ts
                need_ref = len(R.enc_v2_record(i, tsd, key, value, headers))
            if first_ts is None:
                first_ts = ts
            if i > 0 and size_ref + need_ref > bs:
                bad("accepted_over_limit", {"index": i, "size": size_ref, "needed": need_ref, "batch_size": bs})
            if i > 0 and size_ref + need_ref == bs:
                out.label("boundary_equal_accepted")
            for L in rc.BOUNDARY_LENS[:4]:
                if need_ref == L + len(R.enc_varint(L)):
                    out.label("record_len_%d" % L)
            if est < rc.V2_HEADER_SIZE + need_ref:
                bad("estimate_not_upper_bound", {"index": i, "estimate": est,
                                                 "batch_with_record": rc.V2_HEADER_SIZE + need_ref})
            got_md = {"offset": md.offset, "size": md.size, "timestamp": md.timestamp, "crc": md.crc}
            want_md = {"offset": i, "size": need_ref, "timestamp": ts, "crc": None}
            if got_md != want_md:
                bad("metadata", {"index": i, "got": got_md, "want": want_md})
            size_ref += need_ref
            if b.size() != size_ref:
                bad("size", {"index": i, "got": b.size(), "want": size_ref, "when": "after append"})
            acc.append({"ts": ts, "key": key, "value": value, "headers": headers})
        if opts.get("late") is not None:
            pid, epoch, seq = opts["late"]
            b.set_producer_state(pid, epoch, seq)
            out.label("late_producer_state")
        st = (b.producer_id, b.producer_epoch, b.base_sequence)
        if st != (pid, epoch, seq):
            bad("producer_state_properties", {"got": list(st), "want": [pid, epoch, seq]})
        buf = b.build()
        if not isinstance(buf, (bytes, bytearray)):
            out.fail("wellformed", site("build_type"), {"type": type(buf).__name__}, builder=nm, magic=2, codec=codec)
            return None
        buf = bytes(buf)
        if b.size() != len(buf):
            bad("size", {"got": b.size(), "want": len(buf), "when": "after build"})
        if codec == 0 and len(buf) != size_ref:
            bad("size_vs_built_length", {"size_before_build": size_ref, "built": len(buf)})
    except Exception as e:  # builders must accept every input of the domain
        out.fail("wellformed", site("builder_raises"), {"error": rc.exc_str(e)}, builder=nm, magic=2, codec=codec)
        return None
    return buf, acc, (pid, epoch, seq)


def _wellformed_v2(out, nm, buf, acc, codec, tx, pid, epoch, seq):
    """-> codec actually used (for later expectations) or None when malformed."""
    def bad(w, detail):
        out.fail("wellformed", "%s.v2.%s" % (nm, w), detail, builder=nm, magic=2, codec=codec)

    rrecs = [{"timestamp": r["ts"], "key": r["key"], "value": r["value"], "headers": r["headers"]} for r in acc]
    plain = R.encode_v2(rrecs, codec=0, transactional=tx, pid=pid, epoch=epoch, base_seq=seq)
    if buf == plain:
        if codec:
            out.label("compression_fallback_uncompressed")
        return 0
    n0 = len(out.failures)
    try:
        d = R.decode_v2(buf)
    except R.RefDecodeError as e:
        # name the header field if the fixed header is at fault
        if len(buf) >= 61:
            (_bo, length, _le, magic) = struct.unpack_from(">qiib", buf, 0)
            if length + 12 != len(buf):
                bad("length", {"got": length, "want": len(buf) - 12})
                return None
            if magic != 2:
                bad("magic", {"got": magic})
                return None
        bad("unparseable", {"error": str(e), "len": len(buf)})
        return None
    want_attrs = (0x10 if tx else 0)
    exp = {"base_offset": 0, "leader_epoch": -1, "last_offset_delta": len(acc) - 1,
           "first_ts": acc[0]["ts"], "max_ts": max(r["ts"] for r in acc), "pid": pid, "epoch": epoch,
           "base_seq": seq, "count": len(acc)}
    for f, w in exp.items():
        if d[f] != w:
            bad(f, {"got": d[f], "want": w})
    if d["attrs"] not in (want_attrs | codec, want_attrs):
        bad("attributes", {"got": d["attrs"], "want_one_of": [want_attrs | codec, want_attrs]})
    if not d["crc_ok"]:
        bad("crc", {"got": d["crc"], "want": R.crc32c(buf[21:])})
    if len(d["records"]) == len(acc):
        for i, (g, w) in enumerate(zip(d["records"], acc)):
            gg = {"offset_delta": g["offset_delta"], "ts_delta": g["ts_delta"], "key": g["key"], "value": g["value"],
                  "headers": [list(h) for h in g["headers"]], "attrs": g["attrs"]}
            ww = {"offset_delta": i, "ts_delta": w["ts"] - acc[0]["ts"], "key": w["key"], "value": w["value"],
                  "headers": [list(h) for h in w["headers"]], "attrs": 0}
            for f in ww:
                if gg[f] != ww[f]:
                    bad("record_" + f, {"index": i, "got": rc._short(gg[f]), "want": rc._short(ww[f])})
                    break
            else:
                continue
            break
    if len(out.failures) == n0:
        payload = R.decompress(d["codec"], buf[61:])
        if payload != plain[61:]:
            bad("noncanonical_payload", {"len_got": len(payload), "len_want": len(plain) - 61})
        elif d["codec"] == 0:
            bad("bytes_differ", {"note": "decodes equal but differs from the reference encoding"})
    return d["codec"] if len(out.failures) == n0 else None


def _run_legacy_builder(out, impl, magic, recs, codec, bs):
    nm = impl.name
    fmt = "v%d" % magic

    def bad(w, detail):
        out.fail("size_accounting", "%s.%s.%s" % (nm, fmt, w), detail, builder=nm, magic=magic, codec=codec)

    B = impl.LegacyBuilder
    try:
        b = B(magic, codec, bs)
        ov = B.record_overhead(magic)
        if ov != rc.LEGACY_OVERHEAD[magic] - 12:
            bad("record_overhead", {"got": ov, "want": rc.LEGACY_OVERHEAD[magic] - 12})
        size_ref = 0
        acc = []
        for i, r in enumerate(recs):
            key, value, ts_in = r["key"], r["value"], r["ts"]
            need_ref = rc.LEGACY_OVERHEAD[magic] + len(key or b"") + len(value or b"")
            sib = b.size_in_bytes(i, ts_in, key, value)
            if sib != need_ref:
                bad("size_in_bytes", {"index": i, "got": sib, "want": need_ref})
            if b.size() != size_ref:
                bad("size", {"index": i, "got": b.size(), "want": size_ref, "when": "before append"})
            t_lo = rc.now_ms()
            md = b.append(i, ts_in, key, value)
            t_hi = rc.now_ms()
            if md is None:
                out.label("append_refused")
                if i == 0:
                    bad("first_append_refused", {"batch_size": bs})
                elif not (size_ref + need_ref >= bs):
                    bad("refused_but_fits", {"index": i, "size": size_ref, "needed": need_ref, "batch_size": bs})
                if size_ref + need_ref == bs:
                    out.label("boundary_equal_refused")
                if b.size() != size_ref:
                    bad("size", {"index": i, "got": b.size(), "want": size_ref, "when": "after refused append"})
                break
            if magic == 0:
                ts, md_ts = None, -1
            elif ts_in is None:
                out.label("timestamp_now")
                ts = md_ts = md.timestamp
                if not (isinstance(ts, int) and t_lo - 1 <= ts <= t_hi + 1):
                    bad("metadata_timestamp_now", {"index": i, "got": ts, "window": [t_lo, t_hi]})
                    return None
            else:
                ts = md_ts = ts_in
            if i > 0 and size_ref + need_ref > bs:
                bad("accepted_over_limit", {"index": i, "size": size_ref, "needed": need_ref, "batch_size": bs})
            if i > 0 and size_ref + need_ref == bs:
                out.label("boundary_equal_accepted")
            msg = R.enc_legacy_message(magic, i, key, value, ts, 0)
            assert len(msg) == need_ref
            got_md = {"offset": md.offset, "size": md.size, "timestamp": md.timestamp, "crc": md.crc}
            want_md = {"offset": i, "size": need_ref, "timestamp": md_ts, "crc": rc.legacy_crc_of(msg)}
            if got_md != want_md:
                bad("metadata", {"index": i, "got": got_md, "want": want_md})
            size_ref += need_ref
            if b.size() != size_ref:
                bad("size", {"index": i, "got": b.size(), "want": size_ref, "when": "after append"})
            acc.append({"ts": ts, "key": key, "value": value, "headers": [], "msg": msg})
        buf = b.build()
        if not isinstance(buf, (bytes, bytearray)):
            out.fail("wellformed", "%s.%s.build_type" % (nm, fmt), {"type": type(buf).__name__},
                     builder=nm, magic=magic, codec=codec)
            return None
        buf = bytes(buf)
        if b.size() != len(buf):
            bad("size", {"got": b.size(), "want": len(buf), "when": "after build"})
        if codec == 0 and len(buf) != size_ref:
            bad("size_vs_built_length", {"size_before_build": size_ref, "built": len(buf)})
    except Exception as e:
        out.fail("wellformed", "%s.%s.builder_raises" % (nm, fmt), {"error": rc.exc_str(e)},
                 builder=nm, magic=magic, codec=codec)
        return None
    return buf, acc


def _wellformed_legacy(out, nm, magic, buf, acc, codec):
    """-> wrapper offset (compressed) / True (plain) when well-formed, None otherwise."""
    fmt = "v%d" % magic

    def bad(w, detail):
        out.fail("wellformed", "%s.%s.%s" % (nm, fmt, w), detail, builder=nm, magic=magic, codec=codec)

    plain = b"".join(r["msg"] for r in acc)
    n0 = len(out.failures)
    if codec == 0:
        if buf == plain:
            return True
        try:
            batches, rest = R.decode_buffer(buf)
        except R.RefDecodeError as e:
            bad("unparseable", {"error": str(e), "len": len(buf)})
            return None
        got = [b["records"][0] for b in batches if len(b["records"]) == 1 and b["codec"] == 0]
        if rest or len(got) != len(acc):
            bad("message_count", {"got": len(got), "want": len(acc), "trailing": len(rest)})
            return None
        for i, (g, w, gb) in enumerate(zip(got, acc, batches)):
            for f, gv, wv in (("offset", g["offset"], i), ("magic", gb["magic"], magic),
                              ("attributes", gb["attrs"], 0), ("timestamp", g["timestamp"], w["ts"]),
                              ("key", g["key"], w["key"]), ("value", g["value"], w["value"]),
                              ("crc", gb["crc_ok"], True)):
                if gv != wv:
                    bad("message_" + f, {"index": i, "got": rc._short(gv), "want": rc._short(wv)})
                    return None
        bad("bytes_differ", {"note": "decodes equal but differs from the reference encoding"})
        return None
    # compressed: one wrapper message
    try:
        m, end = R._dec_legacy_message(buf, 0)
    except (R.RefDecodeError, struct.error) as e:
        bad("unparseable", {"error": str(e), "len": len(buf)})
        return None
    if end != len(buf):
        bad("wrapper_length", {"message_end": end, "buffer": len(buf)})
    if m["magic"] != magic:
        bad("wrapper_magic", {"got": m["magic"]})
    if m["attrs"] != codec:
        bad("wrapper_attributes", {"got": m["attrs"], "want": codec})
    if m["key"] is not None:
        bad("wrapper_key", {"got": rc._short(m["key"])})
    if not m["crc_ok"]:
        bad("wrapper_crc", {"got": m["crc"]})
    if m["value"] is None:
        bad("wrapper_value_null", {})
        return None
    try:
        inner = R.decompress(codec, m["value"])
    except R.RefDecodeError as e:
        bad("wrapper_payload", {"error": str(e)})
        return None
    if inner != plain:
        # inner messages must be the plain messages with offsets 0..n-1 (KIP-31 relative offsets)
        what = "inner_messages"
        try:
            pos, k = 0, 0
            while pos < len(inner):
                im, pos = R._dec_legacy_message(inner, pos)
                if k < len(acc) and im["offset"] != k:
                    what = "inner_offset"
                    break
                k += 1
            if what == "inner_messages" and k != len(acc):
                what = "inner_count"
        except (R.RefDecodeError, struct.error):
            what = "inner_unparseable"
        bad(what, {"len_got": len(inner), "len_want": len(plain)})
    # Wrapper offset / timestamp: what a fetch-side reader needs is offset of the last inner
    # message and (v1, CreateTime) the max inner timestamp; on the produce side the broker
    # assigns both, so a blank value is counted, not failed (see ASSUMPTIONS).
    last = len(acc) - 1
    if m["offset"] != last:
        out.label("wrapper_offset_blank")
        if STRICT_WRAPPER or m["offset"] != 0:
            bad("wrapper_offset", {"got": m["offset"], "want_last_inner_offset": last, "records": len(acc)})
    if magic == 1:
        mx = max(r["ts"] for r in acc)
        if m["timestamp"] != mx:
            out.label("wrapper_ts_not_max")
            if STRICT_WRAPPER or m["timestamp"] != 0:
                bad("wrapper_timestamp", {"got": m["timestamp"], "want_max_inner": mx})
    return m["offset"] if len(out.failures) == n0 else None


# =============================================================================== decoding
class Entry:
    """One top-level entry of a buffer with the expectation for readers."""
    __slots__ = ("magic", "data", "want", "src")

    def __init__(self, magic, data, want, src):
        self.magic, self.data, self.want, self.src = magic, data, want, src


def _want_v2(base, attrs, lod, first_ts, max_ts, pid, epoch, seq, recs, crc=NotImplemented,
             attrs_known=True):
    """recs: [(offset_delta, ts, key, value, headers)]"""
    lat = (attrs >> 3) & 1
    fields = {"base_offset": base, "magic": 2, "crc": crc,
              "attributes": attrs if attrs_known else NotImplemented,
              "compression_type": (attrs & 7) if attrs_known else NotImplemented,
              "timestamp_type": lat, "is_transactional": bool(attrs & 0x10),
              "is_control_batch": bool(attrs & 0x20), "last_offset_delta": lod,
              "first_timestamp": first_ts, "max_timestamp": max_ts, "producer_id": pid,
              "producer_epoch": epoch, "base_sequence": seq, "next_offset": base + lod + 1,
              "crc_valid": True}
    records = [{"offset": base + od, "timestamp": max_ts if lat else ts, "timestamp_type": lat,
                "key": k, "value": v, "headers": [[hk, hv] for hk, hv in hs], "checksum": None}
               for od, ts, k, v, hs in recs]
    return {"fields": fields, "records": records}


def _want_legacy(magic, next_offset, recs, ts_type):
    """recs: [(offset, ts, key, value, crc)]"""
    fields = {"next_offset": next_offset, "is_control_batch": False, "is_transactional": False,
              "producer_id": None, "crc_valid": True}
    tt = None if magic == 0 else ts_type
    records = [{"offset": o, "timestamp": None if magic == 0 else ts, "timestamp_type": tt, "key": k,
                "value": v, "headers": [], "checksum": crc} for o, ts, k, v, crc in recs]
    return {"fields": fields, "records": records}


def _entries_from_built_v2(nm, buf, acc, tx, pid, epoch, seq):
    recs = [(i, r["ts"], r["key"], r["value"], r["headers"]) for i, r in enumerate(acc)]
    want = _want_v2(0, 0x10 if tx else 0, len(acc) - 1, acc[0]["ts"], max(r["ts"] for r in acc),
                    pid, epoch, seq, recs, attrs_known=False)
    return [Entry(2, buf, want, nm)]


def _entries_from_built_legacy(nm, magic, buf, acc, codec, wrapper_offset):
    if codec == 0:
        ents = []
        for i, r in enumerate(acc):
            ents.append(Entry(magic, r["msg"], _want_legacy(
                magic, i + 1, [(i, r["ts"], r["key"], r["value"], rc.legacy_crc_of(r["msg"]))], 0), nm))
        return ents
    recs = [(i, r["ts"], r["key"], r["value"], rc.legacy_crc_of(r["msg"])) for i, r in enumerate(acc)]
    nxt = len(acc) if wrapper_offset == len(acc) - 1 else NotImplemented
    return [Entry(magic, buf, _want_legacy(magic, nxt, recs, 0), nm)]


def _family(impl_list, obj):
    for im in impl_list:
        if isinstance(obj, im.V2Batch):
            return 2
        if isinstance(obj, im.LegacyBatch):
            return 1
    return None


def _standalone_ok(im, e):
    try:
        objs = rc.drain_memory_records(im.MemoryRecords(e.data))
        return len(objs) == 1 and not rc.compare_read(rc.read_batch(objs[0], e.magic), e.want)
    except Exception:
        return False


def _check_entries(out, entries, tail, readers=None, **params):
    """cross_decode on every entry with every reader, concat on the whole buffer with every
    MemoryRecords implementation."""
    ims = rc.impls()
    data = b"".join(e.data for e in entries) + tail
    ents, rest = R.split_batches(data)
    if [b for _, b in ents] != [e.data for e in entries] or rest != tail:
        raise HarnessError("reference splitter disagrees with the constructed buffer")
    magics = [e.magic for e in entries]
    mixed = len(set(magics)) > 1
    seen = set()
    for im in ims:
        for idx, e in enumerate(entries):
            key = (im.name, e.magic, e.data)
            if key in seen:
                continue
            seen.add(key)
            fmt = "v%d" % e.magic
            try:
                obj = im.V2Batch(e.data) if e.magic >= 2 else im.LegacyBatch(e.data, e.magic)
                got = rc.read_batch(obj, e.magic)
            except Exception as ex:
                out.fail("cross_decode", "%s.%s.raises" % (im.name, fmt),
                         {"entry": idx, "error": rc.exc_str(ex), "src": e.src, "len": len(e.data)},
                         reader=im.name, src=e.src, magic=e.magic, **params)
                continue
            for what, detail in rc.compare_read(got, e.want):
                detail = dict(detail, entry=idx, src=e.src)
                out.fail("cross_decode", "%s.%s.%s" % (im.name, fmt, what), detail,
                         reader=im.name, src=e.src, magic=e.magic, **params)
    for im in ims:
        def cfail(what, detail, idx=None):
            site = "%s.%s" % (im.name, what)
            if (mixed and idx is not None and entries[idx].magic != magics[0]
                    and _standalone_ok(im, entries[idx])):
                # the entry decodes correctly when it is alone in a buffer: the failure is due
                # to its position behind an entry of another format
                site = "%s.mixed_magic" % im.name
                detail = dict(detail, what=what, entry_magic=entries[idx].magic)
            out.fail("concat", site, dict(detail, magics=magics, tail=len(tail)),
                     reader=im.name, mixed=mixed, **params)
        try:
            mr = im.MemoryRecords(data)
            sz = mr.size_in_bytes()
            objs = rc.drain_memory_records(mr)
        except Exception as ex:
            # which entry was being produced?  attribute to the first entry of a different format
            idx = next((i for i, m in enumerate(magics) if m != magics[0]), None) if mixed else None
            cfail("raises", {"error": rc.exc_str(ex)}, idx)
            continue
        if sz != len(data):
            cfail("size_in_bytes", {"got": sz, "want": len(data)})
        if len(objs) != len(entries):
            cfail("batch_count", {"got": len(objs), "want": len(entries)})
            continue
        for idx, (o, e) in enumerate(zip(objs, entries)):
            fam = _family(ims, o)
            if fam != (2 if e.magic >= 2 else 1):
                cfail("wrong_format", {"entry": idx, "got_class": type(o).__name__, "entry_magic": e.magic}, idx)
                continue
            try:
                got = rc.read_batch(o, e.magic)
            except Exception as ex:
                cfail("v%d.raises" % e.magic, {"entry": idx, "error": rc.exc_str(ex)}, idx)
                continue
            for what, detail in rc.compare_read(got, e.want):
                cfail("v%d.%s" % (e.magic, what), dict(detail, entry=idx, src=e.src), idx)


# =============================================================================== exec: build
def _expand_case_recs(case):
    t0 = case["t0"]
    recs = []
    for r in case["recs"]:
        e = rc.expand_rec(r, t0)
        hx = r.get("hx") or 0
        if hx and e["headers"]:
            e["headers"] = e["headers"] + [e["headers"][0]] * hx
        recs.append(e)
    return recs


def _classify(out, batches_of_recs):
    """Labels and the non-triviality rule over the record lists of a case."""
    nt = False
    for recs in batches_of_recs:
        nh = False
        for r in recs:
            a, b = rc.record_classes(r, out)
            nh = nh or a
            nt = nt or b
        if len(recs) >= 2 and nh:
            nt = True
        tss = [r["ts"] for r in recs if r.get("ts") is not None]
        if len(tss) >= 2:
            if any(y < x for x, y in zip(tss, tss[1:])):
                out.label("ts_decreasing")
            if max(tss) - min(tss) > 0x7FFFFFFF:
                out.label("ts_delta_beyond_int32")
    return nt


def exec_build(case):
    out = Outcome()
    magic = case["magic"]
    codec = rc.pick_codec(magic, case["ci"])
    recs = _expand_case_recs(case)
    if magic < 2:
        for r in recs:
            r["headers"] = []
    out.nontrivial = _classify(out, [recs])
    out.label("magic_%d" % magic, "codec_%s" % R.CODEC_NAMES[codec], "records_%s" % (
        "1" if len(recs) == 1 else "2-4" if len(recs) <= 4 else "5+"))
    # batch size: reference size of a prefix +- d (needs concrete timestamps)
    bsc = case.get("bs")
    if bsc is None or any(r["ts"] is None for r in recs):
        bs = BIG_BATCH
        out.label("batch_size_unbounded")
    else:
        k = min(bsc["k"], len(recs) - 1)
        if magic >= 2:
            tot = rc.V2_HEADER_SIZE + sum(len(R.enc_v2_record(i, r["ts"] - recs[0]["ts"], r["key"], r["value"],
                                                              r["headers"])) for i, r in enumerate(recs[:k + 1]))
        else:
            tot = sum(rc.LEGACY_OVERHEAD[magic] + len(r["key"] or b"") + len(r["value"] or b"")
                      for r in recs[:k + 1])
        bs = max(0, tot + bsc["d"])
        out.label("batch_size_at_prefix" if abs(bsc["d"]) <= 3 else "batch_size_off_prefix")
    opts = {"tx": bool(case.get("tx")), "pid": case.get("pid", -1), "epoch": case.get("epoch", -1),
            "seq": case.get("seq", -1), "late": case.get("late")}
    if magic >= 2 and opts["tx"]:
        out.label("transactional")
    info = {}
    for im in rc.impls():
        if magic >= 2:
            res = _run_v2_builder(out, im, recs, codec, opts, bs)
            if res is None:
                continue
            buf, acc, (pid, epoch, seq) = res
            used = _wellformed_v2(out, im.name, buf, acc, codec, opts["tx"], pid, epoch, seq)
            if used is None:
                continue
            entries = _entries_from_built_v2(im.name, buf, acc, opts["tx"], pid, epoch, seq)
        else:
            res = _run_legacy_builder(out, im, magic, recs, codec, bs)
            if res is None:
                continue
            buf, acc = res
            wo = _wellformed_legacy(out, im.name, magic, buf, acc, codec)
            if wo is None:
                continue
            entries = _entries_from_built_legacy(im.name, magic, buf, acc, codec, wo)
        info[im.name] = {"accepted": len(acc), "bytes": len(buf)}
        tail = b""
        tn = case.get("tail") or 0
        if tn:
            tail = entries[-1].data[:tn % len(entries[-1].data)]
            if tail:
                out.label("trailing_partial")
        _check_entries(out, entries, tail, builder=im.name, codec=codec)
    out.info = info
    return out


# =============================================================================== exec: decode
def _ref_batch(b, magic, t0, builders):
    """One batch spec -> [Entry] (legacy uncompressed gives one entry per record)."""
    codec = rc.pick_codec(magic, b["ci"])
    recs = []
    for r in b["recs"]:
        e = rc.expand_rec(r, t0)
        if e["ts"] is None:
            e["ts"] = rc.clamp_ts(t0)
        if magic < 2:
            e["headers"] = []
        e["gap"] = r.get("gap") or 0
        recs.append(e)
    src = b.get("src") or "ref"
    if src != "ref" and recs:
        im = builders[0] if src == "b0" else builders[-1]
        if magic >= 2:
            bd = im.V2Builder(2, codec, bool(b.get("tx")), b.get("pid", -1), b.get("epoch", -1),
                              b.get("seq", -1), BIG_BATCH)
            for i, r in enumerate(recs):
                if bd.append(i, r["ts"], r["key"], r["value"], list(r["headers"])) is None:
                    raise LibraryFault("limit_protocol", im.name + ".v2.unbounded_builder_refused_append", {"index": i, "records": len(recs)})
            data = bytes(bd.build())
            return recs, _entries_from_built_v2(
                "builder:" + im.name, data, recs, bool(b.get("tx")), b.get("pid", -1), b.get("epoch", -1),
                b.get("seq", -1))
        bd = im.LegacyBuilder(magic, codec, BIG_BATCH)
        for i, r in enumerate(recs):
            if bd.append(i, r["ts"], r["key"], r["value"]) is None:
                raise LibraryFault("limit_protocol", im.name + ".v%d.unbounded_builder_refused_append" % magic, {"index": i, "records": len(recs)})
            r["msg"] = R.enc_legacy_message(magic, i, r["key"], r["value"], r["ts"] if magic else None, 0)
            if magic == 0:
                r["ts"] = None
        data = bytes(bd.build())
        wo = struct.unpack_from(">q", data, 0)[0]
        return recs, _entries_from_built_legacy("builder:" + im.name, magic, data, recs, codec, wo)
    base = b.get("base") or 0
    offs = []
    o = base
    for r in recs:
        o += r["gap"]
        offs.append(o)
        o += 1
    lat = 1 if (b.get("lat") and magic >= 1) else 0
    lat_ts = rc.clamp_ts(t0 + (b.get("lat_dt") or 0))
    if magic >= 2:
        if not recs:
            codec = 0
        tx, ctl = bool(b.get("tx")), bool(b.get("ctl"))
        pid, epoch, seq = b.get("pid", -1), b.get("epoch", -1), b.get("seq", -1)
        first_ts = recs[0]["ts"] if recs else -1
        max_ts = lat_ts if lat else max((r["ts"] for r in recs), default=-1)
        lod = (offs[-1] - base if recs else 0) + (b.get("lod_extra") or 0)
        rr = [{"offset_delta": off - base, "timestamp": r["ts"], "key": r["key"], "value": r["value"],
               "headers": r["headers"]} for off, r in zip(offs, recs)]
        data = R.encode_v2(rr, base_offset=base, codec=codec, ts_type=lat, transactional=tx, control=ctl,
                           pid=pid, epoch=epoch, base_seq=seq, leader_epoch=b.get("le", -1),
                           first_ts=first_ts, max_ts=max_ts, last_offset_delta=lod)
        attrs = codec | (8 if lat else 0) | (0x10 if tx else 0) | (0x20 if ctl else 0)
        want = _want_v2(base, attrs, lod, first_ts, max_ts, pid, epoch, seq,
                        [(off - base, r["ts"], r["key"], r["value"], r["headers"]) for off, r in zip(offs, recs)],
                        crc=struct.unpack_from(">I", data, 17)[0])
        return recs, [Entry(2, data, want, "ref")]
    if not recs:
        return recs, []
    if magic == 0:
        for r in recs:
            r["ts"] = None
    if codec == 0:
        ents = []
        for off, r in zip(offs, recs):
            msg = R.enc_legacy_message(magic, off, r["key"], r["value"], r["ts"], 0x08 if lat else 0)
            ents.append(Entry(magic, msg, _want_legacy(
                magic, off + 1, [(off, r["ts"], r["key"], r["value"], rc.legacy_crc_of(msg))], lat), "ref"))
        return recs, ents
    rel0 = min(b.get("rel0") or 0, offs[0]) if magic == 1 else 0
    lrecs = [{"offset": off, "ts": r["ts"], "key": r["key"], "value": r["value"]} for off, r in zip(offs, recs)]
    data, crcs = rc.ref_legacy_wrapper(magic, lrecs, codec, lat, lat_ts if lat else None, rel0)
    want = _want_legacy(magic, offs[-1] + 1,
                        [(off, lat_ts if lat else r["ts"], r["key"], r["value"], c)
                         for off, r, c in zip(offs, recs, crcs)], lat)
    return recs, [Entry(magic, data, want, "ref")]


def exec_decode(case):
    out = Outcome()
    t0 = case["t0"]
    specs = list(case["batches"])
    forced = case.get("magic")
    if forced is None:
        specs.sort(key=lambda b: b["m"])      # the order an upgrade produces: v0 -> v1 -> v2
    entries = []
    rec_lists = []
    magics = []
    ims = rc.impls()
    for b in specs:
        magic = forced if forced is not None else b["m"]
        try:
            recs, ents = _ref_batch(b, magic, t0, ims)
        except HarnessError:
            raise
        except Exception as e:
            if (b.get("src") or "ref") == "ref":
                raise
            out.fail("wellformed", "builder_raises_in_concat", {"error": rc.exc_str(e), "magic": magic})
            return out
        rec_lists.append(recs)
        if ents:
            magics.append(magic)
            codec = rc.pick_codec(magic, b["ci"])
            out.label("magic_%d" % magic, "codec_%s" % R.CODEC_NAMES[codec if recs else 0],
                      "src_" + (b.get("src") or "ref").replace("b0", "builder").replace("b1", "builder"))
            if magic >= 2:
                if b.get("ctl") and (b.get("src") or "ref") == "ref":
                    out.label("control_batch")
                if not recs:
                    out.label("empty_v2_batch")
            if b.get("lat") and magic >= 1 and (b.get("src") or "ref") == "ref":
                out.label("log_append_time")
            if any(r.get("gap") for r in recs) or b.get("lod_extra"):
                out.label("offset_gaps")
        entries.extend(ents)
    tail = b""
    tn = case.get("tail") or 0
    if tn:
        if entries:
            tail = entries[-1].data[:tn % len(entries[-1].data)]
        else:
            tail = b"\x00" * (tn % 12)
        if tail:
            out.label("trailing_partial_lt12" if len(tail) < 12 else "trailing_partial")
    mixed = len(set(magics)) > 1
    if mixed:
        out.label("mixed_" + "".join("v%d" % m for m in sorted(set(magics))))
    elif forced is None:
        out.label("mixed_campaign_single_magic")
    out.label("entries_%s" % ("0" if not entries else "1" if len(entries) == 1 else "2+"))
    out.nontrivial = _classify(out, rec_lists) or mixed
    _check_entries(out, entries, tail)
    out.info = {"magics": magics, "entries": len(entries), "tail": len(tail)}
    return out


# pure-Python interpreter variants (same oracles, evaluated in the AIOKAFKA_NO_EXTENSIONS child)
def exec_build_purepy(case):
    return rc.pure_call("props.c09", "exec_build", case)


def exec_decode_purepy(case):
    return rc.pure_call("props.c09", "exec_decode", case)


# =============================================================================== strategies
def _strats(huge=False):
    from hypothesis import strategies as st
    small = st.integers(0, 40)
    bnd = st.sampled_from([62, 63, 64, 65, 127, 128, 8190, 8191, 8192, 8193])
    lens = [small, small, st.integers(0, 300), bnd]
    if huge:
        lens = [st.sampled_from([1048575, 1048576, 70000, 8192])]
    pat = st.fixed_dictionaries({"p": st.binary(max_size=6), "n": st.one_of(*lens)})
    raw = st.binary(max_size=20)
    blob = st.one_of(st.none(), raw, raw, pat, pat)
    small_blob = st.one_of(st.none(), st.binary(max_size=6), st.fixed_dictionaries(
        {"p": st.binary(max_size=3), "n": st.sampled_from([0, 1, 63, 64, 100])}))
    hkey = st.one_of(st.sampled_from(["", "k", "id", "ключ", "é" * 32, "x" * 63,
                                      "x" * 64, "\U0001f511", "a\x00b", "é" * 31 + "z"]),
                     st.text(max_size=5))
    header = st.tuples(hkey, small_blob).map(list)
    dt = st.one_of(st.integers(-5000, 5000), st.integers(-5000, 5000), st.integers(0, 50),
                   st.sampled_from([0x7FFFFFFF, 0x80000000, -0x80000000, -0x80000001, 1 << 32, -(1 << 32),
                                    1 << 40, -(1 << 40), 1 << 63, -(1 << 63)]),
                   st.integers(-(1 << 63), 1 << 63))
    t0 = st.one_of(st.sampled_from([0, 1, 1600000000000, 1 << 31, 1 << 62, (1 << 63) - 1]),
                   st.integers(0, (1 << 63) - 1))

    def rec(with_none_ts, with_gap):
        d = {"dt": st.one_of(dt, dt, dt, dt, dt, dt, dt, st.none()) if with_none_ts else dt,
             "k": blob if not huge else st.one_of(st.none(), raw), "v": blob,
             "h": st.one_of(st.just([]), st.lists(header, max_size=3)),
             "hx": st.sampled_from([0, 0, 0, 0, 0, 0, 0, 60, 61, 62, 63])}
        if with_gap:
            d["gap"] = st.sampled_from([0, 0, 0, 1, 2, 1000])
        return st.fixed_dictionaries(d)

    pid = st.sampled_from([-1, 0, 1, 12345, (1 << 63) - 1])
    epoch = st.sampled_from([-1, 0, 1, 32767])
    seq = st.sampled_from([-1, 0, 1, (1 << 31) - 1])
    return dict(st=st, rec=rec, t0=t0, pid=pid, epoch=epoch, seq=seq)


def _strat_build(huge=False):
    s = _strats(huge)
    st = s["st"]
    bs = st.one_of(st.none(),
                   st.fixed_dictionaries({"k": st.integers(0, 6), "d": st.integers(-3, 3)}),
                   st.fixed_dictionaries({"k": st.integers(0, 6), "d": st.integers(-3, 3)}),
                   st.fixed_dictionaries({"k": st.integers(0, 6), "d": st.sampled_from([-1000, -61, -30, 30, 100])}))
    return st.fixed_dictionaries({
        "magic": st.sampled_from([2, 2, 2, 1, 1, 0]),
        "ci": st.integers(0, 4),
        "t0": s["t0"],
        "recs": st.lists(s["rec"](True, False), min_size=1, max_size=2)
        if huge else st.one_of(st.lists(s["rec"](True, False), min_size=1, max_size=6),
                               st.lists(s["rec"](True, False), min_size=2, max_size=12)),
        "bs": bs,
        "tx": st.booleans(), "pid": s["pid"], "epoch": s["epoch"], "seq": s["seq"],
        "late": st.one_of(st.none(), st.none(), st.tuples(s["pid"], s["epoch"], s["seq"]).map(list)),
        "tail": st.sampled_from([0, 0, 5, 12, 40, 1000003]),
    })


def _strat_batch(s, mixed):
    st = s["st"]
    d = {"ci": st.integers(0, 4),
         "recs": st.lists(s["rec"](False, True), min_size=0, max_size=5),
         "src": st.sampled_from(["ref", "ref", "ref", "b0", "b1"]),
         "base": st.one_of(st.just(0), st.integers(0, 1000), st.sampled_from([1 << 31, 1 << 40, 1 << 62])),
         "lat": st.sampled_from([False, False, True]), "lat_dt": st.integers(-1000, 100000),
         "tx": st.booleans(), "ctl": st.sampled_from([False, False, False, True]),
         "pid": s["pid"], "epoch": s["epoch"], "seq": s["seq"],
         "le": st.sampled_from([-1, 0, 7, (1 << 31) - 1]),
         "lod_extra": st.sampled_from([0, 0, 0, 1, 5]),
         "rel0": st.sampled_from([0, 0, 1, 3])}
    if mixed:
        d["m"] = st.sampled_from([0, 1, 2])
    return st.fixed_dictionaries(d)


def _strat_decode():
    s = _strats()
    st = s["st"]
    return st.fixed_dictionaries({
        "magic": st.sampled_from([2, 2, 1, 1, 0]),
        "t0": s["t0"],
        "batches": st.lists(_strat_batch(s, False), min_size=0, max_size=4),
        "tail": st.sampled_from([0, 0, 3, 11, 12, 13, 17, 61, 1000003]),
    })


def _strat_mixed():
    s = _strats()
    st = s["st"]
    return st.fixed_dictionaries({
        "t0": s["t0"],
        "batches": st.lists(_strat_batch(s, True), min_size=2, max_size=4),
        "tail": st.sampled_from([0, 0, 3, 12, 17, 1000003]),
    })


# =============================================================================== campaigns
def campaigns(tier):
    from vlib.runner import Campaign
    th = tier == "thorough"

    def C(name, execute, strategy, quick, thorough, wall_q=40, wall_t=2400):
        # max_wall only bounds pathological slowness (reported as inconclusive remainder)
        return Campaign(name, "hyp", execute=execute, strategy=strategy, examples=thorough if th else quick,
                        max_wall=wall_t if th else wall_q, shrink_wall=20.0)
    return [
        C("build", exec_build, _strat_build, 3200, 60000, wall_q=50),
        C("build_huge", exec_build, lambda: _strat_build(True), 64, 400, wall_t=1200),
        C("ref_decode", exec_decode, _strat_decode, 1800, 30000),
        C("concat_mixed", exec_decode, _strat_mixed, 480, 8000),
        C("build_purepy", exec_build_purepy, _strat_build, 640, 12000),
        C("ref_decode_purepy", exec_decode_purepy, _strat_decode, 320, 6000),
        C("concat_mixed_purepy", exec_decode_purepy, _strat_mixed, 160, 2000),
    ]
