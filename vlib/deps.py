"""Third-party dependencies of the checks, installed offline when missing."""
import importlib
import os
import subprocess
import sys

VERIF = os.path.dirname(os.path.dirname(os.path.abspath(__file__)))
DEPS = os.path.join(VERIF, ".deps")
WHEELS = "/opt/veriftools/wheels"


def _have(mod):
    try:
        importlib.import_module(mod)
        return True
    except Exception:
        return False


def ensure(extra=()):
    need = [(m, p) for m, p in (("hypothesis", "hypothesis"),) + tuple(extra) if not _have(m)]
    if not need:
        return
    os.makedirs(DEPS, exist_ok=True)
    if DEPS not in sys.path:
        sys.path.insert(1, DEPS)
    for m, p in need:
        subprocess.run([sys.executable, "-m", "pip", "install", "-q", "--no-index",
                        "--find-links", WHEELS, "--target", DEPS, p], check=True)
        importlib.invalidate_caches()
        if not _have(m):
            raise RuntimeError("cannot provide dependency %s" % m)
