"""Shared harness and oracles for C14 / C15 (consumer-group partition assignors).

Harness: `Group` plays every member of one consumer group the way the coordinator
uses an assignor

    member : assignor.metadata(topics).encode()                      (JoinGroup)
    leader : ConsumerProtocolMemberMetadata.decode() for each member,
             assignor.assign(cluster, {member_id: metadata})
             ConsumerProtocolMemberAssignment.encode()               (SyncGroup)
    member : ConsumerProtocolMemberAssignment.decode(),
             assignor.on_assignment(assignment)
             [only in gen mode "positive": assignor.on_generation_assignment(g)]

The sticky assignor keeps `member_assignment` / `generation` as *class* attributes, i.e.
one process = one member.  The harness keeps every simulated member's copy of those two
attributes itself and installs it on the class only around that member's own
`metadata()` / `on_assignment()` call; the class is reset before every case, before the
leader's `assign()` and after every member call.

Oracles are plain predicates over (layout, subscriptions, result); they never call the
code under test.
"""
import itertools
import signal
import threading

ASSIGNORS = ("range", "roundrobin", "sticky")
GEN_MODES = ("default", "positive")


class StubCluster:
    """What the assignors use of ClusterMetadata: partitions_for_topic() (None for a topic
    without metadata) and topics() (only topics that have metadata, like the real one)."""

    def __init__(self, layout):
        self._layout = dict(layout)

    def partitions_for_topic(self, topic):
        n = self._layout.get(topic)
        if n is None:
            return None
        return set(range(n))

    def topics(self, exclude_internal_topics=True):
        return {t for t, n in self._layout.items() if n is not None}


def assignor_class(name):
    if name == "range":
        from aiokafka.coordinator.assignors.range import RangePartitionAssignor
        return RangePartitionAssignor
    if name == "roundrobin":
        from aiokafka.coordinator.assignors.roundrobin import RoundRobinPartitionAssignor
        return RoundRobinPartitionAssignor
    if name == "sticky":
        from aiokafka.coordinator.assignors.sticky.sticky_assignor import StickyPartitionAssignor
        return StickyPartitionAssignor
    raise ValueError(name)


def reset_sticky():
    from aiokafka.coordinator.assignors.sticky.sticky_assignor import StickyPartitionAssignor as S
    S.member_assignment = None
    S.generation = S.DEFAULT_GENERATION_ID
    S._latest_partition_movements = None


ASSIGN_CPU_LIMIT_S = 2.0    # process CPU seconds (ITIMER_VIRTUAL: immune to machine load); a normal
                            # call takes well under 0.1 s.  Non-termination is reported as
                            # exact_cover@raises:TimeoutError (the property requires a result).
_HANGS = [0]                # after 3 hangs in this process later calls get 0.2 s, so that a tree
                            # that loops on many inputs still finishes the campaign


class _Hang(BaseException):
    """Raised by the watchdog inside a non-terminating assign(); BaseException so that the
    assignor's own `except Exception` blocks cannot swallow it."""


class _watchdog:
    def __init__(self):
        self.seconds = ASSIGN_CPU_LIMIT_S if _HANGS[0] < 3 else 0.2
        self.armed = False

    def _fire(self, signum, frame):
        _HANGS[0] += 1
        raise _Hang()

    def __enter__(self):
        if threading.current_thread() is threading.main_thread():
            self.old = signal.signal(signal.SIGVTALRM, self._fire)
            signal.setitimer(signal.ITIMER_VIRTUAL, self.seconds)
            self.armed = True
        return self

    def __exit__(self, *exc):
        if self.armed:
            signal.setitimer(signal.ITIMER_VIRTUAL, 0)
            signal.signal(signal.SIGVTALRM, self.old)
        return False


class AssignorRaised(Exception):
    def __init__(self, stage, exc):
        Exception.__init__(self, "%s: %r" % (stage, exc))
        self.stage = stage
        self.exc_type = type(exc).__name__
        self.exc_repr = repr(exc)[:300]


class Group:
    def __init__(self, aname, gen_mode="default"):
        self.aname = aname
        self.cls = assignor_class(aname)
        self.sticky = aname == "sticky"
        self.gen_mode = gen_mode
        self.state = {}      # member -> (member_assignment as on_assignment stored it, generation)
        self.generation = 0  # group generation, +1 per rebalance
        self.multi_gen_claims = False
        reset_sticky()

    def snapshot(self):
        return (dict(self.state), self.generation)

    def restore(self, snap):
        self.state = dict(snap[0])
        self.generation = snap[1]

    def _multi_gen_claims(self, names):
        """Is some partition claimed, in the user data about to be sent, by two of these members
        with different generations?  (Computed from the harness' own records.)"""
        if not self.sticky:
            return False
        gens = {}
        for m in names:
            st = self.state.get(m)
            if st is None or st[0] is None:
                continue
            for tp in st[0]:
                gens.setdefault((tp[0], tp[1]), set()).add(st[1])
        return any(len(g) > 1 for g in gens.values())

    def _member_metadata(self, name, topics):
        from aiokafka.coordinator.protocol import ConsumerProtocolMemberMetadata
        cls = self.cls
        st = self.state.get(name) if self.sticky else None
        try:
            if st is not None:
                cls.member_assignment, cls.generation = st
            md = cls.metadata(list(topics))
            wire = md.encode()
        finally:
            if self.sticky:
                reset_sticky()
        return ConsumerProtocolMemberMetadata.decode(wire)

    def rebalance(self, layout, members):
        """members: ordered list of (name, [topics]).  Returns {member: [(topic, partition), ...]}
        as decoded from what the assignor returned.  Raises AssignorRaised."""
        from aiokafka.coordinator.protocol import ConsumerProtocolMemberAssignment
        self.generation += 1
        try:
            mds = {}
            for name, topics in members:
                mds[name] = self._member_metadata(name, topics)
        except Exception as e:
            raise AssignorRaised("metadata", e)
        self.multi_gen_claims = self._multi_gen_claims([m for m, _ in members])
        cluster = StubCluster(layout)
        try:
            with _watchdog():
                res = self.cls.assign(cluster, mds)
        except _Hang:
            raise AssignorRaised("assign", TimeoutError("assign() still running after its CPU limit"))
        except Exception as e:
            raise AssignorRaised("assign", e)
        finally:
            if self.sticky:
                reset_sticky()
        try:
            decoded = {}
            for m, a in res.items():
                decoded[m] = ConsumerProtocolMemberAssignment.decode(a.encode())
        except Exception as e:
            raise AssignorRaised("result_encoding", e)
        out = {}
        for m, a in decoded.items():
            out[m] = [(t, p) for t, ps in a.assignment for p in ps]
        if self.sticky:
            try:
                for name, _ in members:
                    if name not in decoded:
                        continue
                    try:
                        self.cls.on_assignment(decoded[name])
                        if self.gen_mode == "positive":
                            self.cls.on_generation_assignment(self.generation)
                        self.state[name] = (self.cls.member_assignment, self.cls.generation)
                    finally:
                        reset_sticky()
            except Exception as e:
                raise AssignorRaised("on_assignment", e)
        return out


# ---------------------------------------------------------------- oracles

def subs_class(members):
    """'single' | 'identical' | 'overlap_different' | 'disjoint' (by pairs; overlap wins)."""
    sets = [frozenset(ts) for _, ts in members]
    if len(sets) < 2:
        return "single"
    if all(s == sets[0] for s in sets):
        return "identical"
    for a, b in itertools.combinations(sets, 2):
        if a != b and a & b:
            return "overlap_different"
    return "disjoint_or_equal"


def all_identical(members):
    sets = [frozenset(ts) for _, ts in members]
    return all(s == sets[0] for s in sets)


def subscribed_without_metadata(layout, members):
    return sorted({t for _, ts in members for t in ts if layout.get(t) is None})


def check_cover(layout, members, result):
    """exact_cover clause.  Returns (problems, owner) with problems = [(site, detail)],
    owner = {(topic, partition): member} (only meaningful when problems is empty)."""
    problems = {}

    def bad(site, **detail):
        problems.setdefault(site, detail)

    subs = {m: set(ts) for m, ts in members}
    for m in subs:
        if m not in result:
            bad("missing_member", member=m)
    for m in result:
        if m not in subs:
            bad("extra_member", member=m)
    owners = {}
    for m in subs:
        for t, p in result.get(m, ()):
            if t not in subs[m]:
                bad("not_subscribed", member=m, topic=t, partition=p)
            n = layout.get(t)
            if n is None:
                bad("topic_without_metadata", member=m, topic=t, partition=p)
            elif not (isinstance(p, int) and 0 <= p < n):
                bad("nonexistent_partition", member=m, topic=t, partition=p, partitions=n)
            owners.setdefault((t, p), []).append(m)
    for tp, ms in owners.items():
        if len(ms) > 1:
            bad("assigned_twice", topic=tp[0], partition=tp[1], members=ms)
    subscribed = set()
    for s in subs.values():
        subscribed |= s
    for t in sorted(subscribed):
        n = layout.get(t)
        if n is None:
            continue
        for p in range(n):
            if (t, p) not in owners:
                bad("unassigned", topic=t, partition=p)
                break
    return sorted(problems.items()), {tp: ms[0] for tp, ms in owners.items()}


def check_kip54(members, result, owner):
    """No member a and partition p owned by b, a subscribed to p's topic, load(b) >= load(a)+2."""
    load = {m: len(result[m]) for m, _ in members}
    for a, ts in members:
        want = set(ts)
        for (t, p), b in owner.items():
            if b != a and t in want and load[b] >= load[a] + 2:
                return {"taker": a, "taker_load": load[a], "holder": b, "holder_load": load[b],
                        "topic": t, "partition": p}
    return None


def check_rr_balance(members, result):
    load = {m: len(result[m]) for m, _ in members}
    if max(load.values()) - min(load.values()) > 1:
        return {"loads": load}
    return None


def check_range_balance(layout, members, result):
    for t in sorted({t for _, ts in members for t in ts}):
        if layout.get(t) is None:
            continue
        cnt = {m: sum(1 for tt, _ in result[m] if tt == t) for m, ts in members if t in ts}
        if max(cnt.values()) - min(cnt.values()) > 1:
            return {"topic": t, "loads": cnt}
    return None


def validity(out, aname, layout, members, result, prefix="", **params):
    """C14's clauses on one result.  Returns owner map or None if exact_cover failed."""
    problems, owner = check_cover(layout, members, result)
    for site, detail in problems:
        out.fail("exact_cover", prefix + site,
                 dict(detail, assignor=aname, layout=layout, members=members, result=result), **params)
    if problems:
        return None
    ctx = {"assignor": aname, "layout": layout, "members": members, "result": result}
    if aname == "sticky":
        d = check_kip54(members, result, owner)
        if d:
            out.fail("sticky_kip54", prefix.rstrip(":"), dict(d, **ctx), **params)
    elif aname == "roundrobin":
        if all_identical(members):
            d = check_rr_balance(members, result)
            if d:
                out.fail("rr_balance", prefix.rstrip(":"), dict(d, **ctx), **params)
    elif aname == "range":
        d = check_range_balance(layout, members, result)
        if d:
            out.fail("range_balance", prefix.rstrip(":"), dict(d, **ctx), **params)
    return owner


def norm_members(members):
    return [(str(m), [str(t) for t in ts]) for m, ts in members]


def result_summary(result):
    return {m: len(v) for m, v in sorted(result.items())}


# ---------------------------------------------------------------- the bounded space

PART_CHOICES = (None, 0, 1, 2, 3, 4)


def nonempty_subsets(n):
    return [[i for i in range(n) if (mask >> i) & 1] for mask in range(1, 1 << n)]


def bounded_inputs(max_members, max_topics=3, part_choices=PART_CHOICES, min_members=1):
    """Every (topics, subs) of the bounded space, in a fixed order.
    topics: tuple of None|int per topic; subs: tuple (per member) of topic-index lists."""
    for nt in range(1, max_topics + 1):
        subsets = nonempty_subsets(nt)
        for nm in range(min_members, max_members + 1):
            for topics in itertools.product(part_choices, repeat=nt):
                for subs in itertools.product(subsets, repeat=nm):
                    yield topics, subs


def expand_bounded(topics, subs):
    layout = {"t%d" % i: n for i, n in enumerate(topics)}
    members = [("m%d" % i, ["t%d" % j for j in s]) for i, s in enumerate(subs)]
    return layout, members
