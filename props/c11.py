"""C11 - API messages encode to the Kafka wire format and negotiate versions safely.

Oracle: the independent reference wire codec vlib.refproto (hand-written schema tables
tables_core.py + tables_admin.py and its own primitive codecs).  The library's SCHEMA
objects are only walked for their *shape* (how constructor arguments nest), never for
wire types; expectations (bytes, versions, header forms, expressibility of a parameter)
come from the reference tables.

Clauses
  layout          library .encode() bytes == reference encode() bytes (structs, request header)
  roundtrip       library decode(encode(v)) == v, consumes every byte, and the reference
                  decode of the library's bytes == v
  header_form     request header v1/v2 and response header v0/v1 are chosen exactly for the
                  (api, version) pairs the reference table marks flexible (ApiVersions
                  responses always v0), and parse_response_header consumes exactly the header
  version_choice  prepare(versions) returns the struct with the highest version in
                  (versions the builder declares) n [min,max] or raises; the version in the
                  encoded header is that version; a struct class named X_vN carries version N
  reply_pairing   RESPONSE_TYPE has the same api key and version as the request struct and
                  decodes a reference-encoded reply of the version that was put on the wire
  no_silent_drop  a meaning-changing builder parameter is either visible in the bytes as
                  decoded by the reference table of the negotiated version, or
                  IncompatibleBrokerVersion is raised

Failure sites are <StructOrBuilderName>[:field-or-reason]; a mismatch that disappears when
all tagged-field buffers of the value are emptied is attributed to the primitive
(site "TaggedFields...") instead of the struct.
"""
import io
import os
import random
import struct as _struct

from vlib.core import Outcome
from vlib.runner import Campaign, derive_seed, env_seed

ID = "C11"
LEVEL = "exploration"
RULE = ("Struct cases: {struct, api, version, kind, value}; the value is generated from the REFERENCE "
        "schema of (api, version, kind): integer extremes, null/empty/non-ASCII/long strings (byte lengths "
        "126..129, 16382..16384, 32767), null/empty/nested arrays (counts 127/128, 16383/16384 for "
        "primitive elements), null/empty bytes, tagged-field buffers (tags 0..2^31-1, sizes 0..128, "
        "sorted and unsorted).  struct_sweep enumerates every struct x N deterministic values (5 "
        "systematic modes + seeded random; N=60 quick, 1000 thorough) so every struct gets >= N values; "
        "struct_hyp_<module> draws struct uniformly and shrinks.  headers: every request struct x "
        "correlation ids x client ids x response tag buffers.  version_choice: every builder x kwargs "
        "variant x every broker range 0<=min<=max<=maxdefined+1 plus the api key missing (exhaustive). "
        "no_silent_drop: every guarded parameter x non-neutral values x every version of the builder "
        "(exhaustive).  Non-trivial = value with >=1 null/empty/nested-array field or a compact length "
        ">=128 (structs); a non-default client id/tag buffer (headers); a range that forces a non-latest "
        "version, is disjoint or missing (version_choice); a non-neutral value (no_silent_drop). "
        "Primitives no schema or header reaches (signed varints, ...) are exercised in "
        "unused_primitives and reported as labels only.  Transactional id '' is treated as out of "
        "range (Kafka requires a non-empty id).")
ASSUMPTIONS = [
    "vlib/refproto/codec.py primitives and tables_core.py + tables_admin.py schemas (hand-written from the "
    "Kafka message definitions) are the trusted wire format; tables_admin adds the f64 type to the codec",
    "constructor arguments of a struct are mapped to reference fields by position; only the nesting shape "
    "(Schema/Array/leaf) of the library schema is used for that",
    "the set of versions a builder supports is the set of API_VERSION values of its _CLASSES",
    "ListOffsets v0 cannot express a timestamp search (protocol semantics: 'offsets before', max_num_offsets)",
    "ConsumerProtocol subscription/assignment v0 layout (embedded structs) as in the Kafka consumer protocol",
]

MODULES = ("produce", "fetch", "offset", "metadata", "commit", "group", "transaction", "coordination", "admin")
ADMIN_SPLIT = {"admin_a": lambda k: k <= 21, "admin_b": lambda k: 29 <= k <= 33, "admin_c": lambda k: k >= 36}

EMBEDDED = {
    # Kafka consumer protocol v0 (ConsumerProtocolSubscription / ConsumerProtocolAssignment)
    "ProtocolMetadata": "version:i16 topics:[str] user_data:nbytes",
    "MemberAssignment": "version:i16 assigned:[topic:str partitions:[i32]] user_data:nbytes",
}

INT_RANGES = {"i8": (-2 ** 7, 2 ** 7 - 1), "i16": (-2 ** 15, 2 ** 15 - 1), "i32": (-2 ** 31, 2 ** 31 - 1),
              "i64": (-2 ** 63, 2 ** 63 - 1), "u32": (0, 2 ** 32 - 1), "uvarint": (0, 2 ** 31 - 1)}
STR_TYPES = ("str", "nstr", "cstr", "cnstr")
BYTES_TYPES = ("bytes", "nbytes", "cbytes", "cnbytes")
NULLABLE = ("nstr", "cnstr", "nbytes", "cnbytes")
COMPACT = ("cstr", "cnstr", "cbytes", "cnbytes")


# ---------------------------------------------------------------- library inventory (lazy)
_LIB = {}


def lib():
    """Enumerate the library's struct classes and builders (cached per process)."""
    if _LIB:
        return _LIB
    import importlib
    import inspect
    from aiokafka.protocol.api import Request, RequestStruct, Response
    from vlib.refproto import codec
    structs = {}      # name -> dict(cls, kind, module, api, version)
    builders = {}     # name -> cls
    order = []
    seen = set()
    for m in MODULES:
        mod = importlib.import_module("aiokafka.protocol." + m)
        for n, c in vars(mod).items():
            if not inspect.isclass(c) or c.__module__ != mod.__name__:
                continue
            if c in seen or n != c.__name__:      # TypeAlias names (XxxRequestStruct = Xxx_v0)
                continue
            seen.add(c)
            if issubclass(c, RequestStruct) and c is not RequestStruct:
                kind = "request"
            elif issubclass(c, Response) and c is not Response:
                kind = "response"
            elif issubclass(c, Request) and c is not Request:
                builders[n] = c
                continue
            elif n in EMBEDDED:
                kind = "embedded"
            else:
                continue
            grp = m
            if m == "admin":
                for g, pred in ADMIN_SPLIT.items():
                    if pred(c.API_KEY):
                        grp = g
            api = getattr(c, "API_KEY", -1) if kind != "embedded" else -1
            ver = getattr(c, "API_VERSION", 0) if kind != "embedded" else 0
            structs[n] = {"cls": c, "kind": kind, "group": grp, "api": api, "version": ver, "name": n}
            order.append(n)
    _LIB.update(structs=structs, builders=builders, order=order, codec=codec)
    return _LIB


def ref_schema(kind, api, version, name=None):
    codec = lib()["codec"]
    if kind == "request":
        return codec.request_schema(api, version)
    if kind == "response":
        return codec.response_schema(api, version)
    return codec.parse(EMBEDDED[name])


def struct_names(group=None):
    L = lib()
    return [n for n in L["order"] if group is None or L["structs"][n]["group"] == group]


GROUPS = ("produce", "fetch", "offset", "metadata", "commit", "group", "transaction", "coordination",
          "admin_a", "admin_b", "admin_c")


# ---------------------------------------------------------------- value generation from the reference schema
def _is_arr(t):
    return isinstance(t, (tuple, list))


class RDraw:
    """Draw source backed by random.Random."""

    def __init__(self, rnd):
        self.r = rnd

    def int(self, lo, hi):
        return self.r.randint(lo, hi)

    def pick(self, seq):
        return seq[self.r.randrange(len(seq))]

    def text(self, maxlen):
        n = self.r.randint(0, maxlen)
        alpha = "abcXYZ019-_.øЖ日✓\u0000😀 "
        return "".join(alpha[self.r.randrange(len(alpha))] for _ in range(n))

    def binary(self, maxlen):
        return bytes(self.r.randrange(256) for _ in range(self.r.randint(0, maxlen)))

    def float(self):
        return self.r.choice([self.r.uniform(-1e6, 1e6), _struct.unpack(">d", _struct.pack(">Q", self.r.getrandbits(62)))[0]])


class HDraw:
    """Draw source backed by a Hypothesis composite `draw`."""

    def __init__(self, draw):
        from hypothesis import strategies as st
        self.d = draw
        self.st = st

    def int(self, lo, hi):
        return self.d(self.st.integers(lo, hi))

    def pick(self, seq):
        return self.d(self.st.sampled_from(list(seq)))

    def text(self, maxlen):
        return self.d(self.st.text(alphabet=self.st.characters(blacklist_categories=("Cs",)), max_size=maxlen))

    def binary(self, maxlen):
        return self.d(self.st.binary(max_size=maxlen))

    def float(self):
        return self.d(self.st.floats(allow_nan=False, allow_infinity=False, width=64))


class GenCtx:
    def __init__(self, mode=None, huge=True):
        self.mode = mode          # None (random) | empty | null | max | b127 | b128
        self.huge = huge          # allow 16384-element arrays / 70 kB blobs (sweep only: the runner
        #                           fingerprints every shrink candidate, so Hypothesis values stay < ~50 kB)
        self.big_left = 2 if huge else 1   # long strings / huge arrays still allowed in this value
        self.in_rep = False


_SHORT = ["a", "topic-1", "my.group_7", "x" * 10, "User:alice", "0"]
_NONASCII = ["tøpic", "日本語トピック", "ключ-✓", "a\u0000b", "😀x", "é"]
_FLOATS = [0.0, 1.0, -1.0, 1.5, 1e308, -1e308, 5e-324, 1048576.0, -0.0]
_TAGS = [0, 1, 2, 5, 127, 128, 16383, 16384, 2 ** 31 - 1]
_TAGDATA = [b"", b"a", b"ab", b"\x00", bytes(127), bytes(range(128)), b"\xff" * 5]


def _utf8_of_len(n, nonascii):
    """A string whose UTF-8 encoding has exactly n bytes."""
    if nonascii and n >= 3:
        k = n // 3
        return "日" * k + "a" * (n - 3 * k)
    return "a" * n


def gen_prim(t, d, ctx):
    m = ctx.mode
    if t in INT_RANGES:
        lo, hi = INT_RANGES[t]
        if m == "empty":
            return 0
        if m == "null":
            return lo
        if m in ("max", "b127", "b128"):
            return hi
        k = d.int(0, 9)
        sp = [0, 1, hi, lo, hi - 1, lo + 1 if lo < 0 else 2, -1 if lo < 0 else 3]
        if k < len(sp):
            return sp[k]
        return d.int(lo, hi)
    if t == "bool":
        if m in ("empty", "null"):
            return False
        if m:
            return True
        return bool(d.int(0, 1))
    if t == "f64":
        if m in ("empty", "null"):
            return 0.0
        if m:
            return 1e308
        k = d.int(0, 11)
        return _FLOATS[k] if k < len(_FLOATS) else d.float()
    if t in STR_TYPES:
        if m == "empty":
            return ""
        if m == "null":
            return None if t in NULLABLE else ""
        if m == "max":
            return "日本-✓-ø"
        if m == "b127":
            return _utf8_of_len(127, False)
        if m == "b128":
            return _utf8_of_len(128, True)
        k = d.int(0, 19)
        if k == 0:
            return ""
        if k <= 3:
            return None if t in NULLABLE else d.pick(_SHORT)
        if k <= 8:
            return d.pick(_SHORT)
        if k <= 11:
            return d.pick(_NONASCII)
        if k <= 14:
            return d.text(20)
        if k <= 17:
            return _utf8_of_len(d.pick([126, 127, 128, 129, 255, 256]), d.int(0, 1) == 1)
        if ctx.big_left > 0:
            ctx.big_left -= 1
            if k == 18:
                return _utf8_of_len(d.pick([16382, 16383, 16384]), d.int(0, 1) == 1)
            return _utf8_of_len(d.pick([32767, 20000]), d.int(0, 1) == 1)
        return d.pick(_SHORT)
    if t in BYTES_TYPES:
        if m == "empty":
            return b""
        if m == "null":
            return None if t in NULLABLE else b""
        if m == "max":
            return b"\x00\xff\x80"
        if m == "b127":
            return bytes(127)
        if m == "b128":
            return b"\xfe" * 128
        k = d.int(0, 15)
        if k == 0:
            return b""
        if k <= 3:
            return None if t in NULLABLE else b"\x00"
        if k <= 8:
            return d.pick([b"a", b"\x00\x01", b"\xff\xfe\xfd", b"batch"])
        if k <= 11:
            return d.binary(40)
        if k <= 13:
            return bytes(d.pick([126, 127, 128, 129]))
        if ctx.big_left > 0:
            ctx.big_left -= 1
            return b"\x07" * d.pick([16382, 16383, 16384, 70000] if ctx.huge else [16382, 16383, 16384])
        return b"z"
    if t == "tags":
        if m in ("empty", "null", "b127", "b128"):
            return []
        if m == "max":
            return [[1, b"ab"], [2 ** 31 - 1, b""]]
        k = d.int(0, 9)
        if k <= 5:
            return []
        n = k - 5 if k <= 8 else 3
        tags = []
        for _ in range(n):
            tg = d.pick(_TAGS)
            if tg not in tags:
                tags.append(tg)
        tags.sort()
        if len(tags) >= 2 and d.int(0, 7) == 7:
            tags.reverse()
        return [[tg, d.pick(_TAGDATA)] for tg in tags]
    raise ValueError("no generator for reference type %r" % (t,))


def gen_fields(schema, d, ctx, depth=0):
    val = {}
    for name, t in schema:
        if _is_arr(t):
            val[name] = gen_array(t, d, ctx, depth)
        else:
            val[name] = gen_prim(t, d, ctx)
    return val


def gen_array(t, d, ctx, depth):
    _, pre, elem = t
    nullable = "?" in pre
    compact = "c" in pre
    prim = isinstance(elem, str)
    m = ctx.mode
    rep = False
    if m == "empty":
        return []
    if m == "null":
        if nullable:
            return None
        n = 1 if depth == 0 else 0
    elif m == "max":
        n = 2
    elif m in ("b127", "b128"):
        n = int(m[1:]) if depth == 0 or prim else 1
        rep = True
    else:
        k = d.int(0, 15)
        if k in (0, 3):
            return []
        if k in (1, 2):
            if nullable:
                return None
            n = 1
        elif k <= 8:
            n = 1
        elif k <= 10:
            n = 2
        elif k == 11:
            n = 3
        elif k <= 13:
            if (compact or prim) and depth <= 1 and not ctx.in_rep:
                n = d.pick([127, 128])
                rep = True
            else:
                n = 2
        else:
            if prim and elem in INT_RANGES and ctx.big_left > 0 and k == 14 and ctx.huge:
                ctx.big_left -= 1
                n = d.pick([16383, 16384])
                rep = True
            else:
                n = 1
    if rep:
        saved, ctx.big_left = ctx.big_left, 0       # no long strings / nested boundary counts inside
        was, ctx.in_rep = ctx.in_rep, True          # a replicated element
        one = gen_prim(elem, d, ctx) if prim else gen_fields(elem, d, ctx, depth + 1)
        ctx.big_left, ctx.in_rep = saved, was
        return [one] * n
    if prim:
        return [gen_prim(elem, d, ctx) for _ in range(n)]
    return [gen_fields(elem, d, ctx, depth + 1) for _ in range(n)]


def sample_value(schema, counter=None):
    """Deterministic 'rich' value: one element per array, distinct scalars, nothing null."""
    c = counter if counter is not None else [0]
    val = {}
    for name, t in schema:
        c[0] += 1
        n = c[0]
        if _is_arr(t):
            elem = t[2]
            if isinstance(elem, str):
                val[name] = [_sample_prim(elem, n), _sample_prim(elem, n + 50)]
                c[0] += 1
            else:
                val[name] = [sample_value(elem, c)]
        else:
            val[name] = _sample_prim(t, n)
    return val


def _sample_prim(t, n):
    if t in INT_RANGES:
        return n % 100 + 1
    if t == "bool":
        return True
    if t == "f64":
        return n + 0.5
    if t in STR_TYPES:
        return "s%d" % n
    if t in BYTES_TYPES:
        return b"b%d" % n
    if t == "tags":
        return []
    raise ValueError(t)


# ---------------------------------------------------------------- value walking / conversion
def features(schema, val, acc, depth=0):
    """Collect NT features and class labels of a portable value."""
    for name, t in schema:
        v = val[name]
        if _is_arr(t):
            _, pre, elem = t
            if v is None:
                acc.add("null_array")
                continue
            if not v:
                acc.add("empty_array")
            if depth >= 1:
                acc.add("nested_array")
            if "c" in pre and len(v) + 1 >= 128:
                acc.add("compact_len_ge128")
            if len(v) >= 16383:
                acc.add("array_ge16383")
            if isinstance(elem, str):
                for e in v[:4]:
                    _prim_features(elem, e, acc)
            else:
                seen = 0
                for e in v:
                    features(elem, e, acc, depth + 1)
                    seen += 1
                    if seen >= 4:
                        break
        else:
            _prim_features(t, v, acc)


def _prim_features(t, v, acc):
    if t in STR_TYPES:
        if v is None:
            acc.add("null_string")
        elif v == "":
            acc.add("empty_string")
        else:
            b = v.encode("utf-8")
            if len(b) != len(v):
                acc.add("nonascii_string")
            if t in COMPACT and len(b) + 1 >= 128:
                acc.add("compact_len_ge128")
            if len(b) >= 16383:
                acc.add("string_ge16383")
    elif t in BYTES_TYPES:
        if v is None:
            acc.add("null_bytes")
        elif not v:
            acc.add("empty_bytes")
        elif t in COMPACT and len(v) + 1 >= 128:
            acc.add("compact_len_ge128")
    elif t == "tags":
        if v:
            acc.add("tags_nonempty")
            if any(len(x[1]) >= 127 for x in v):
                acc.add("tag_size_ge127")
            if [x[0] for x in v] != sorted(x[0] for x in v):
                acc.add("tags_unsorted")
            if any(x[0] == 0 for x in v):
                acc.add("tag_zero")
    elif t in INT_RANGES:
        lo, hi = INT_RANGES[t]
        if v in (lo, hi):
            acc.add("int_extreme")


NT_FEATURES = {"null_array", "empty_array", "nested_array", "compact_len_ge128", "null_string", "empty_string",
               "null_bytes", "empty_bytes"}


def map_tags(schema, val, fn):
    """Copy of a portable value with every tagged-field list replaced by fn(list)."""
    out = {}
    for name, t in schema:
        v = val[name]
        if _is_arr(t):
            elem = t[2]
            if v is None:
                out[name] = None
            elif isinstance(elem, str):
                out[name] = [fn(e) for e in v] if elem == "tags" else list(v)
            else:
                out[name] = [map_tags(elem, e, fn) for e in v]
        elif t == "tags":
            out[name] = fn(v)
        else:
            out[name] = v
    return out


def to_ref(schema, val):
    """Portable value -> value for the reference codec (tag lists become dicts)."""
    return map_tags(schema, val, lambda tl: {int(k): bytes(b) for k, b in tl})


class ShapeError(Exception):
    pass


def to_lib(lib_schema, schema, val):
    """Portable value -> positional constructor arguments, following the nesting shape
    of the library schema (a nested library Schema consumes the following reference
    fields; a library Array(Array(x)) matches a reference array of one-field structs)."""
    from aiokafka.protocol.types import Array, Schema
    items = [(t, val[name], name) for name, t in schema]
    pos = [0]

    def field(lf):
        if isinstance(lf, Schema):
            return tuple(field(f) for f in lf.fields)
        if pos[0] >= len(items):
            raise ShapeError("library schema has more fields than the reference (%d)" % len(items))
        t, v, name = items[pos[0]]
        pos[0] += 1
        return conv(lf, t, v, name)

    def conv(lf, t, v, name):
        if isinstance(lf, Array):
            if not _is_arr(t):
                raise ShapeError("library has an array where the reference has %s (%s)" % (t, name))
            if v is None:
                return None
            elem = t[2]
            if isinstance(elem, str):
                if isinstance(lf.array_of, (Schema, Array)):
                    raise ShapeError("library nests deeper than the reference at %s" % name)
                return [conv(lf.array_of, elem, e, name) for e in v]
            if isinstance(lf.array_of, Schema):
                return [to_lib(lf.array_of, elem, e) for e in v]
            if len(elem) != 1:
                raise ShapeError("library has array of non-struct where the reference has a struct (%s)" % name)
            return [conv(lf.array_of, elem[0][1], e[elem[0][0]], name) for e in v]
        if _is_arr(t):
            raise ShapeError("reference has an array where the library has a scalar (%s)" % name)
        if t == "tags":
            return {int(k): bytes(b) for k, b in v}
        return v

    out = tuple(field(f) for f in lib_schema.fields)
    if pos[0] != len(items):
        raise ShapeError("library schema has fewer fields (%d consumed) than the reference (%d)"
                         % (pos[0], len(items)))
    return out


def norm(x):
    if isinstance(x, (list, tuple)):
        return [norm(e) for e in x]
    if isinstance(x, dict):
        return {int(k): bytes(v) for k, v in x.items()}
    if isinstance(x, (bytes, bytearray, memoryview)):
        return bytes(x)
    if isinstance(x, float):
        return _struct.pack(">d", x)
    return x


def _hex(b, limit=400):
    h = bytes(b).hex()
    return h if len(h) <= limit else h[:limit] + "...(%d bytes)" % len(b)


def _first_diff(a, b):
    n = min(len(a), len(b))
    for i in range(n):
        if a[i] != b[i]:
            return i
    return n if len(a) != len(b) else -1


# ---------------------------------------------------------------- struct check
def _check_value(S, schema, val, out_fail):
    """Encode/decode one portable value with library and reference; report through
    out_fail(clause, suffix, detail).  Returns True if nothing failed."""
    codec = lib()["codec"]
    cls = S["cls"]
    name = S["name"]
    ok = True
    refv = to_ref(schema, val)
    ref_bytes = codec.encode(schema, refv)
    args = to_lib(cls.SCHEMA, schema, val)
    try:
        obj = cls(*args)
        lib_bytes = obj.encode()
    except Exception as e:  # in-range value: the library must encode it
        out_fail("layout", ":" + type(e).__name__,
                 {"struct": name, "error": repr(e)[:300], "expected": _hex(ref_bytes)})
        return False
    layout_ok = bytes(lib_bytes) == ref_bytes
    if not layout_ok:
        ok = False
        suffix = ""
        fld = None
        if len(cls.SCHEMA.fields) == len(schema):
            for i, (fname, ft) in enumerate(schema):
                try:
                    rp = codec.encode([(fname, ft)], {fname: refv[fname]})
                    lp = cls.SCHEMA.fields[i].encode(args[i])
                except Exception:
                    fld = fname
                    break
                if rp != bytes(lp):
                    fld = fname
                    break
        if fld is not None:
            suffix = ":" + fld
        detail = {"struct": name, "field": fld, "expected": _hex(ref_bytes), "actual": _hex(lib_bytes),
                  "first_diff_at": _first_diff(ref_bytes, bytes(lib_bytes))}
        try:  # what does the library make of the correct bytes?
            d2 = cls.decode(io.BytesIO(ref_bytes))
            detail["library_decode_of_expected_equal"] = norm([d2.__dict__[n] for n in cls.SCHEMA.names]) == norm(args)
        except Exception as e:
            detail["library_decode_of_expected_error"] = repr(e)[:200]
        out_fail("layout", suffix, detail)
        return False          # a round trip of wrong bytes says nothing more
    # library round trip
    try:
        buf = io.BytesIO(bytes(lib_bytes))
        dec = cls.decode(buf)
        got = norm([dec.__dict__[n] for n in cls.SCHEMA.names])
        left = len(lib_bytes) - buf.tell()
    except Exception as e:
        out_fail("roundtrip", ":" + type(e).__name__, {"struct": name, "error": repr(e)[:300],
                                                      "bytes": _hex(lib_bytes)})
        return False
    want = norm(args)
    if got != want or left:
        ok = False
        bad = None
        for i, n in enumerate(cls.SCHEMA.names):
            if i < len(got) and got[i] != want[i]:
                bad = n
                break
        out_fail("roundtrip", "", {"struct": name, "library_field": bad, "trailing_bytes": left,
                                   "got": repr(got[cls.SCHEMA.names.index(bad)] if bad else None)[:300],
                                   "want": repr(want[cls.SCHEMA.names.index(bad)] if bad else None)[:300]})
    try:
        rv = codec.decode(schema, bytes(lib_bytes))
        if rv != refv:
            ok = False
            out_fail("roundtrip", ":reference_decode", {"struct": name, "bytes": _hex(lib_bytes)})
    except codec.RefProtoError as e:
        ok = False
        out_fail("roundtrip", ":reference_decode", {"struct": name, "error": repr(e)})
    return ok


def exec_struct(case):
    out = Outcome()
    L = lib()
    name = case["struct"]
    S = L["structs"].get(name)
    if S is None:
        out.fail("layout", name + ":missing", {"struct": name})
        return out
    cls = S["cls"]
    kind = S["kind"]
    schema = ref_schema(kind, S["api"], S["version"], name)
    out.label("s:" + name)
    if schema is None:
        out.fail("layout", name + ":no_reference", {"api": S["api"], "version": S["version"]})
        return out
    val = case["value"]
    feats = set()
    try:
        features(schema, val, feats)
    except (KeyError, TypeError, AttributeError) as e:
        # value does not fit the reference schema of the struct's declared (api, version)
        out.fail("layout", name + ":case_schema", {"error": repr(e)})
        return out
    out.label(*feats)
    out.nontrivial = bool(feats & NT_FEATURES)
    try:
        to_lib(cls.SCHEMA, schema, val)
    except ShapeError as e:
        out.fail("layout", name + ":arity", {"struct": name, "shape": str(e),
                                             "reference_fields": [n for n, _ in schema],
                                             "library_fields": list(cls.SCHEMA.names)})
        return out
    has_tags = "tags_nonempty" in feats
    plain = map_tags(schema, val, lambda tl: []) if has_tags else val
    ok = _check_value(S, schema, plain,
                      lambda clause, suffix, detail: out.fail(clause, name + suffix, detail))
    if has_tags and ok:
        fails = []
        ok2 = _check_value(S, schema, val, lambda clause, suffix, detail: fails.append((clause, suffix, detail)))
        if not ok2:
            order = ""
            if "tags_unsorted" in feats:
                srt = map_tags(schema, val, lambda tl: sorted(tl, key=lambda x: x[0]))
                if _check_value(S, schema, srt, lambda *a: None):
                    order = ":order"
            for clause, suffix, detail in fails:
                exc = suffix if suffix in (":AssertionError", ":ValueError", ":TypeError", ":KeyError") else ""
                detail = dict(detail)
                detail["note"] = "passes with all tagged-field buffers emptied"
                out.fail(clause, "TaggedFields" + (order or exc), detail)
    return out


# ---------------------------------------------------------------- struct campaigns
MODES = ["empty", "null", "max", "b127", "b128"]


def _sweep_case(name, i, seed):
    S = lib()["structs"][name]
    schema = ref_schema(S["kind"], S["api"], S["version"], name)
    if schema is None:
        return {"struct": name, "api": S["api"], "version": S["version"], "kind": S["kind"], "value": {}}
    if i < len(MODES):
        ctx = GenCtx(MODES[i])
        d = RDraw(random.Random(0))
    else:
        ctx = GenCtx()
        d = RDraw(random.Random(derive_seed("c11sweep", seed, name, i)))
    return {"struct": name, "api": S["api"], "version": S["version"], "kind": S["kind"],
            "value": gen_fields(schema, d, ctx)}


def _sweep_cases(per_struct):
    def cases(shard, nshards):
        seed = env_seed()
        idx = 0
        for name in struct_names():
            for i in range(per_struct):
                if idx % nshards == shard:
                    yield _sweep_case(name, i, seed)
                idx += 1
    return cases


def _struct_strategy(group):
    def strat():
        from hypothesis import strategies as st
        names = struct_names(group)

        @st.composite
        def case(draw):
            name = draw(st.sampled_from(names))
            S = lib()["structs"][name]
            schema = ref_schema(S["kind"], S["api"], S["version"], name) or []
            val = gen_fields(schema, HDraw(draw), GenCtx(huge=False))
            return {"struct": name, "api": S["api"], "version": S["version"], "kind": S["kind"], "value": val}
        return case()
    return strat


# ---------------------------------------------------------------- static per-struct checks
def _named_version(name, default):
    import re
    m = re.search(r"_v(\d+)$", name)
    return int(m.group(1)) if m else default


def _pairing_problem(name, cls):
    """None if RESPONSE_TYPE carries the request struct's api key and version, else a detail
    dict.  A struct whose name says vN but whose API_VERSION differs is reported once as
    version_choice@<name>:label; its RESPONSE_TYPE is then judged against N."""
    codec = lib()["codec"]
    api, ver = cls.API_KEY, cls.API_VERSION
    rt = cls.RESPONSE_TYPE
    if rt.API_KEY == api and rt.API_VERSION == ver:
        return None
    named = _named_version(name, ver)
    if named != ver and rt.API_KEY == api and rt.API_VERSION == named:
        return None
    return {"struct": name, "api": api, "version": ver, "RESPONSE_TYPE": rt.__name__,
            "response_api": rt.API_KEY, "response_version": rt.API_VERSION,
            "reference_schemas_equal": codec.response_schema(api, ver) == codec.response_schema(rt.API_KEY, rt.API_VERSION)}


def _static_cases(shard, nshards):
    for i, name in enumerate(struct_names()):
        if i % nshards == shard:
            S = lib()["structs"][name]
            yield {"struct": name, "api": S["api"], "version": S["version"], "kind": S["kind"]}


def exec_static(case):
    out = Outcome()
    L = lib()
    codec = L["codec"]
    name = case["struct"]
    S = L["structs"][name]
    cls = S["cls"]
    kind = S["kind"]
    out.label("static:" + kind)
    out.nontrivial = True
    if kind == "embedded":
        return out
    api, ver = S["api"], S["version"]
    if _named_version(name, ver) != ver:
        out.fail("version_choice", name + ":label",
                 {"struct": name, "API_VERSION": ver, "name_says": _named_version(name, ver),
                  "note": "the struct named vN announces another version in the header"})
    schema = ref_schema(kind, api, ver)
    if schema is None:
        out.fail("layout", name + ":no_reference", {"api": api, "version": ver})
        return out
    try:
        to_lib(cls.SCHEMA, schema, sample_value(schema))
    except ShapeError as e:
        out.fail("layout", name + ":arity", {"struct": name, "shape": str(e),
                                             "reference_fields": [n for n, _ in schema],
                                             "library_fields": list(cls.SCHEMA.names)})
    if kind == "request":
        flex = codec.is_flexible(api, ver)
        if bool(cls.FLEXIBLE_VERSION) != flex:
            out.fail("header_form", name + ":flexible_flag",
                     {"struct": name, "FLEXIBLE_VERSION": bool(cls.FLEXIBLE_VERSION), "reference_flexible": flex})
        pp = _pairing_problem(name, cls)
        if pp:
            out.fail("reply_pairing", name, pp)
        used = [b for b, bc in L["builders"].items() if cls in bc._CLASSES]
        if not used:
            out.label("unreachable_by_builder")
            out.info = {"unreachable_by_builder": name}
    return out


# ---------------------------------------------------------------- headers
CORR_IDS = [0, 1, 2 ** 31 - 1, -2 ** 31, 305419896]
CLIENT_IDS = ["aiokafka", "", None, "клиент-✓", "c" * 300]
RESP_TAGS = [[], [[0, b""]], [[1, b"ab"], [128, bytes(130)]]]


def _header_cases(shard, nshards):
    i = 0
    L = lib()
    for name in struct_names():
        S = L["structs"][name]
        if S["kind"] != "request":
            continue
        for ci, corr in enumerate(CORR_IDS):
            for cj, client in enumerate(CLIENT_IDS):
                if (ci + cj) % 2 and ci and cj:      # thin the product a little, keep all singles
                    continue
                if i % nshards == shard:
                    yield {"struct": name, "api": S["api"], "version": S["version"], "correlation_id": corr,
                           "client_id": client, "resp_tags": RESP_TAGS[(ci + cj) % len(RESP_TAGS)]}
                i += 1


def exec_header(case):
    out = Outcome()
    L = lib()
    codec = L["codec"]
    name = case["struct"]
    S = L["structs"][name]
    cls = S["cls"]
    api, ver = S["api"], S["version"]
    corr, client = case["correlation_id"], case["client_id"]
    flex = codec.is_flexible(api, ver)
    out.label("hdr_req_v2" if flex else "hdr_req_v1")
    out.nontrivial = client != "aiokafka" or bool(case["resp_tags"]) or corr not in (0, 1)
    if bool(cls.FLEXIBLE_VERSION) != flex:
        # root cause of every header mismatch of this struct: report it once
        out.fail("header_form", name + ":flexible_flag",
                 {"struct": name, "FLEXIBLE_VERSION": bool(cls.FLEXIBLE_VERSION), "reference_flexible": flex})
        return out
    want = codec.encode_request_header(api, ver, corr, client)
    try:
        inst = cls()
        got = inst.build_request_header(corr, client).encode()
    except Exception as e:
        out.fail("layout", name + ":request_header:" + type(e).__name__, {"error": repr(e)[:300]})
        got = None
    if got is not None and bytes(got) != want:
        # is it the header form (v1 vs v2) or the content?
        other = codec.encode(codec.REQ_HEADER_V1 if flex else codec.REQ_HEADER_V2,
                             dict({"api_key": api, "api_version": ver, "correlation_id": corr,
                                   "client_id": client}, **({} if flex else {"_tags": {}})))
        clause = "header_form" if bytes(got) == other else "layout"
        out.fail(clause, name + ":request_header", {"expected": _hex(want), "actual": _hex(got),
                                                    "reference_flexible": flex})
    # response header: reference-encoded header + reference-encoded rich body of the same version
    rflex = flex and api != 18
    out.label("hdr_resp_v1" if rflex else "hdr_resp_v0")
    rs = codec.response_schema(api, ver)
    if rs is None:
        return out
    tags = {int(k): bytes(b) for k, b in case["resp_tags"]} if rflex else {}
    if rflex:
        hdr = codec.encode(codec.RESP_HEADER_V1, {"correlation_id": corr, "_tags": tags})
    else:
        hdr = codec.encode(codec.RESP_HEADER_V0, {"correlation_id": corr})
    body_val = sample_value(rs)
    body = codec.encode(rs, to_ref(rs, body_val))
    buf = io.BytesIO(hdr + body)
    try:
        h = inst.parse_response_header(buf)
        pos = buf.tell()
    except Exception as e:
        out.fail("header_form", name + ":response_header:" + type(e).__name__, {"error": repr(e)[:300]})
        return out
    if pos != len(hdr):
        out.fail("header_form", name + ":response_header",
                 {"consumed": pos, "header_length": len(hdr), "reference_flexible": rflex,
                  "FLEXIBLE_VERSION": bool(cls.FLEXIBLE_VERSION)})
        return out
    if h.correlation_id != corr or (rflex and norm(getattr(h, "tags", None)) != tags):
        out.fail("layout", name + ":response_header", {"got_correlation_id": h.correlation_id, "want": corr,
                                                       "got_tags": repr(getattr(h, "tags", None)), "want_tags": repr(tags)})
    # the reply of the version that was put on the wire must decode with RESPONSE_TYPE
    rt = cls.RESPONSE_TYPE
    pp = _pairing_problem(name, cls)
    psite = name if pp else name + ":decode"      # one signature per mis-paired struct
    pdet = dict(pp or {}, RESPONSE_TYPE=rt.__name__, wire_version=ver)
    try:
        want_args = norm(to_lib(rt.SCHEMA, rs, body_val))
    except ShapeError as e:
        out.fail("reply_pairing", psite, dict(pdet, shape=str(e)))
        return out
    try:
        dec = rt.decode(buf)
        got_args = norm([dec.__dict__[n] for n in rt.SCHEMA.names])
        left = len(hdr) + len(body) - buf.tell()
    except Exception as e:
        out.fail("reply_pairing", psite, dict(pdet, error=repr(e)[:300]))
        return out
    if got_args != want_args or left:
        out.fail("reply_pairing", psite, dict(pdet, trailing_bytes=left, decoded_equal=got_args == want_args))
    elif pp:
        out.fail("reply_pairing", psite, dict(pdet, note="reply of the wire version decodes, but RESPONSE_TYPE "
                                                         "announces another version"))
    return out


# ---------------------------------------------------------------- builders
_T = [["t1", [[0, b"\x00\x01batch"]]]]
_ACL = dict(resource_type=2, resource_name="t", resource_pattern_type_filter=3, principal="User:a", host="*",
            operation=2, permission_type=3)
_FETCH = dict(max_wait_time=500, min_bytes=1, max_bytes=1 << 20, isolation_level=0, topics=[["t", [[0, 5, 1024]]]])
_JOIN = dict(group="g", session_timeout=10000, rebalance_timeout=30000, member_id="", group_instance_id=None,
             protocol_type="consumer", group_protocols=[["range", b"\x00\x00meta"]])

# builder -> list of (variant name, may_reject, kwargs).  may_reject: IncompatibleBrokerVersion is an
# allowed answer for this variant (it carries a parameter some versions cannot express).
BUILDER_KWARGS = {
    "ProduceRequest": [
        ("plain", False, dict(transactional_id=None, required_acks=1, timeout=1000, topics=_T)),
        ("acks_all_empty", False, dict(transactional_id=None, required_acks=-1, timeout=0, topics=[])),
        ("txn", True, dict(transactional_id="txn-1", required_acks=-1, timeout=1000, topics=_T)),
    ],
    "FetchRequest": [
        ("plain", False, dict(_FETCH)),
        ("three_topics", False, dict(_FETCH, topics=[["t", [[0, 5, 1024]]], ["u", [[1, 7, 2048], [2, 9, 512]]],
                                                     ["v", [[4, 0, 64]]]])),
        ("rack", False, dict(_FETCH, rack_id="rack-a")),
        ("read_committed", True, dict(_FETCH, isolation_level=1)),
    ],
    "OffsetRequest": [
        ("latest", False, dict(replica_id=-1, isolation_level=0, topics=[["t", [[0, -1]]]])),
        ("earliest", False, dict(replica_id=-1, isolation_level=0, topics=[["t", [[0, -2], [1, -2]]]])),
        ("two_topics_mixed", False, dict(replica_id=-1, isolation_level=0, topics=[["t", [[0, -1]]], ["u", [[0, -2], [3, -2]]]])),
        ("timestamp", True, dict(replica_id=-1, isolation_level=0, topics=[["t", [[0, 1500000000000]]]])),
        ("read_committed", True, dict(replica_id=-1, isolation_level=1, topics=[["t", [[0, -1]]]])),
    ],
    "MetadataRequest": [
        ("all", False, dict()),
        ("topics", False, dict(topics=["a", "b"])),
        ("none", False, dict(topics=[], allow_auto_topic_creation=True)),
        ("no_autocreate", False, dict(topics=["a"], allow_auto_topic_creation=False)),
    ],
    "OffsetCommitRequest": [
        ("plain", False, dict(consumer_group="g", consumer_group_generation_id=3, consumer_id="m",
                              retention_time=-1, topics=[["t", [[0, 10, "meta"], [1, 11, None]]]])),
        ("two_topics", False, dict(consumer_group="g", consumer_group_generation_id=3, consumer_id="m",
                                   retention_time=-1, topics=[["t", [[0, 10, "meta"]]], ["u", [[2, 7, None], [5, 8, "x"]]]])),
    ],
    "OffsetFetchRequest": [
        ("parts", False, dict(consumer_group="g", partitions=[["t", [0, 1]]])),
        ("all", True, dict(consumer_group="g", partitions=None)),
    ],
    "JoinGroupRequest": [
        ("dynamic", False, dict(_JOIN)),
        ("static", False, dict(_JOIN, group_instance_id="inst-1", member_id="m-1")),
    ],
    "SyncGroupRequest": [
        ("leader", False, dict(group="g", generation_id=1, member_id="m", group_instance_id=None,
                               group_assignment=[["m", b"assign"]])),
        ("follower_static", False, dict(group="g", generation_id=1, member_id="m", group_instance_id="i",
                                        group_assignment=[])),
    ],
    "HeartbeatRequest": [("plain", False, dict(group="g", generation_id=7, member_id="m"))],
    "LeaveGroupRequest": [("plain", False, dict(group="g", member_id="m"))],
    "InitProducerIdRequest": [
        ("txn", False, dict(transactional_id="txn", transaction_timeout_ms=60000)),
        ("idempotent", False, dict(transactional_id=None, transaction_timeout_ms=2147483647)),
    ],
    "AddPartitionsToTxnRequest": [("plain", False, dict(transactional_id="txn", producer_id=1000, producer_epoch=1,
                                                       topics=[["t", [0, 1]]]))],
    "AddOffsetsToTxnRequest": [("plain", False, dict(transactional_id="txn", producer_id=1000, producer_epoch=1,
                                                    group_id="g"))],
    "EndTxnRequest": [("commit", False, dict(transactional_id="txn", producer_id=1000, producer_epoch=1,
                                            transaction_result=True)),
                      ("abort", False, dict(transactional_id="txn", producer_id=1000, producer_epoch=1,
                                           transaction_result=False))],
    "TxnOffsetCommitRequest": [("plain", False, dict(transactional_id="txn", group_id="g", producer_id=1000,
                                                    producer_epoch=1, topics=[["t", [[0, 10, "m"], [1, 5, None]]]]))],
    "FindCoordinatorRequest": [
        ("group", False, dict(coordinator_key="g", coordinator_type=0)),
        ("txn", True, dict(coordinator_key="txn", coordinator_type=1)),
    ],
    "ApiVersionRequest": [("plain", False, dict())],
    "CreateTopicsRequest": [
        ("plain", False, dict(create_topic_requests=[["t", 3, 1, [], [["retention.ms", "1000"], ["k", None]]]],
                              timeout=1000, validate_only=False)),
        ("assigned", False, dict(create_topic_requests=[["t", -1, -1, [[0, [1, 2]], [1, [2, 3]]], []]],
                                 timeout=1000, validate_only=False)),
        ("validate_only", True, dict(create_topic_requests=[["t", 3, 1, [], []]], timeout=1000,
                                     validate_only=True)),
    ],
    "DeleteTopicsRequest": [("plain", False, dict(topics=["t", "u"], timeout=1000))],
    "ListGroupsRequest": [("plain", False, dict())],
    "DescribeGroupsRequest": [
        ("plain", False, dict(groups=["g"])),
        ("authorized_ops", True, dict(groups=["g"], include_authorized_operations=True)),
    ],
    "SaslHandShakeRequest": [("plain", False, dict(mechanism="SCRAM-SHA-256"))],
    "DescribeAclsRequest": [("literal", False, dict(_ACL))],
    "CreateAclsRequest": [("literal", False, dict(_ACL))],
    "DeleteAclsRequest": [("literal", False, dict(_ACL))],
    "AlterConfigsRequest": [("plain", False, dict(resources=[[2, "t", [["k", "v"], ["n", None]]]],
                                                 validate_only=False)),
                            ("validate", False, dict(resources=[], validate_only=True))],
    "DescribeConfigsRequest": [
        ("keys", False, dict(resources=[[2, "t", ["k"]]])),
        ("all_keys", False, dict(resources=[[4, "0", None]])),
        ("synonyms", True, dict(resources=[[2, "t", None]], include_synonyms=True)),
    ],
    "SaslAuthenticateRequest": [("plain", False, dict(payload=b"\x00user\x00pass"))],
    "CreatePartitionsRequest": [
        ("count", False, dict(topic_partitions=[["t", [6, None]]], timeout=1000, validate_only=False)),
        ("assigned", False, dict(topic_partitions=[["t", [6, [[1, 2], [2, 3]]]]], timeout=1000, validate_only=True)),
    ],
    "DeleteGroupsRequest": [("plain", False, dict(group_names=["g", "h"]))],
    "DescribeClientQuotasRequest": [("plain", False, dict(components=[["user", 0, "alice"], ["client-id", 1, None]],
                                                         strict=False))],
    "AlterPartitionReassignmentsRequest": [
        ("plain", False, dict(timeout_ms=1000, topics=[["t", [[0, [1, 2], {}], [1, None, {}]], {}]], tags={})),
    ],
    "ListPartitionReassignmentsRequest": [
        ("plain", False, dict(timeout_ms=1000, topics=[["t", [0, 1], {}]], tags={})),
        ("all", False, dict(timeout_ms=1000, topics=None, tags={})),
    ],
    "DeleteRecordsRequest": [
        ("plain", False, dict(topics=[["t", [[0, 100], [1, -1]]]], timeout_ms=1000)),
        ("empty_tags", True, dict(topics=[["t", [[0, 100]]]], timeout_ms=1000, tags={})),
    ],
}


def _kwargs(kw):
    kw = dict(kw)
    if isinstance(kw.get("tags"), dict):
        kw["tags"] = {int(k): bytes(v) for k, v in kw["tags"].items()}
    return kw


def _max_defined(api):
    L = lib()
    return max(S["version"] for S in L["structs"].values() if S["api"] == api and S["kind"] != "embedded")


def _choice_cases(shard, nshards):
    L = lib()
    i = 0
    for bname in sorted(L["builders"]):
        b = L["builders"][bname]
        variants = BUILDER_KWARGS.get(bname)
        if variants is None:
            variants = [("MISSING_KWARGS", False, {})]
        top = _max_defined(b.API_KEY) + 1
        ranges = [None] + [[lo, hi] for lo in range(top + 1) for hi in range(lo, top + 1)]
        for vname, may_reject, kw in variants:
            for r in ranges:
                if i % nshards == shard:
                    yield {"builder": bname, "variant": vname, "may_reject": may_reject, "kwargs": kw, "range": r}
                i += 1


def exec_choice(case):
    from aiokafka.errors import IncompatibleBrokerVersion
    out = Outcome()
    L = lib()
    codec = L["codec"]
    bname = case["builder"]
    bcls = L["builders"][bname]
    if case["variant"] == "MISSING_KWARGS":
        out.fail("version_choice", bname + ":no_kwargs_table", {"note": "props/c11.py BUILDER_KWARGS lacks this builder"})
        return out
    api = bcls.API_KEY
    client = sorted({c.API_VERSION for c in bcls._CLASSES})
    r = case["range"]
    versions = {k: (0, 0) for k in (0, 1, 3, 18) if k != api}     # unrelated keys must not matter
    if r is not None:
        versions[api] = (r[0], r[1])
        common = [v for v in client if r[0] <= v <= r[1]]
    else:
        common = None
    try:
        req = bcls(**_kwargs(case["kwargs"]))
    except Exception as e:
        out.fail("version_choice", bname + ":constructor:" + type(e).__name__, {"error": repr(e)[:300]})
        return out
    try:
        rs = req.prepare(versions)
        exc = None
    except (IncompatibleBrokerVersion, NotImplementedError) as e:
        rs, exc = None, e
    except Exception as e:
        out.fail("version_choice", bname + ":prepare:" + type(e).__name__,
                 {"error": repr(e)[:300], "range": r, "variant": case["variant"]})
        return out
    if r is None:
        out.label("range_missing")
        out.nontrivial = True
        if bcls.ALLOW_UNKNOWN_API_VERSION:
            if rs is None or rs.API_VERSION != client[0]:
                out.fail("version_choice", bname + ":unknown_versions",
                         {"expected_version": client[0], "got": None if rs is None else rs.API_VERSION,
                          "error": repr(exc)})
        elif rs is not None or not isinstance(exc, IncompatibleBrokerVersion):
            out.fail("version_choice", bname + ":unknown_versions",
                     {"expected": "IncompatibleBrokerVersion", "got": None if rs is None else rs.API_VERSION,
                      "error": repr(exc)})
        if rs is None:
            return out
        best = client[0]
    elif not common:
        out.label("range_disjoint")
        out.nontrivial = True
        if rs is not None:
            out.fail("version_choice", bname + ":no_common",
                     {"range": r, "client_versions": client, "chosen": rs.API_VERSION,
                      "struct": type(rs).__name__})
        return out
    else:
        best = max(common)
        if best < client[-1]:
            out.label("range_forces_older")
            out.nontrivial = True
        else:
            out.label("range_allows_latest")
        if rs is None:
            if isinstance(exc, IncompatibleBrokerVersion) and case["may_reject"]:
                out.label("rejected_parameter")
                return out
            out.fail("version_choice", bname + ":raised",
                     {"range": r, "client_versions": client, "best_common": best, "error": repr(exc),
                      "variant": case["variant"]})
            return out
    sname = type(rs).__name__
    out.info = {"chosen": sname, "range": r}
    if rs.API_KEY != api or rs.API_VERSION != best:
        out.fail("version_choice", bname,
                 {"range": r, "client_versions": client, "best_common": best, "chosen": rs.API_VERSION,
                  "struct": sname})
    if r is not None and not (r[0] <= rs.API_VERSION <= r[1]):
        out.fail("version_choice", bname + ":outside_broker_range",
                 {"range": r, "chosen": rs.API_VERSION, "struct": sname})
    # what goes on the wire
    try:
        frame = bytes(rs.build_request_header(77, "cid").encode()) + bytes(rs.encode())
    except Exception as e:
        out.fail("layout", bname + ":built:" + type(e).__name__,
                 {"struct": sname, "variant": case["variant"], "error": repr(e)[:300]})
        return out
    hk, hv = _struct.unpack_from(">hh", frame, 0)
    if hk != api or hv != rs.API_VERSION:
        out.fail("version_choice", bname + ":header_version", {"header": [hk, hv], "struct": sname})
    try:
        _hdr, _body = codec.decode_request(frame)
    except codec.RefProtoError as e:
        _body = None
        out.fail("layout", bname + ":built", {"struct": sname, "variant": case["variant"], "wire_version": hv,
                                              "error": str(e), "frame": _hex(frame)})
    if _body is not None:
        # the topics of the request carry their own partitions, each exactly once (builders re-shape the nested lists
        # per version)
        kw_topics = _kwargs(case["kwargs"]).get("topics")
        if isinstance(kw_topics, list) and isinstance(_body.get("topics"), list) and kw_topics and \
                all(isinstance(t, (list, tuple)) and len(t) >= 2 and isinstance(t[1], (list, tuple)) for t in kw_topics):
            def _pid(e):
                return e[0] if isinstance(e, (list, tuple)) else e
            want_shape = [(t[0], [_pid(e) for e in t[1]]) for t in kw_topics]
            got_shape = []
            for t in _body["topics"]:
                if isinstance(t, dict):
                    name = t.get("topic", t.get("name"))
                    ps = t.get("partitions")
                    if isinstance(ps, list):
                        got_shape.append((name, [(e.get("partition", e.get("index")) if isinstance(e, dict) else e) for e in ps]))
            comparable = all(n is not None and all(isinstance(x, int) for x in ps) for n, ps in got_shape) and \
                all(all(isinstance(x, int) for x in ps) for _n, ps in want_shape)
            if comparable and len(got_shape) == len(_body["topics"]) and got_shape != want_shape:
                out.fail("layout", bname + ":built_value:topics", {"struct": sname, "variant": case["variant"], "wire_version": hv,
                                                                  "argument": want_shape, "on_the_wire": got_shape})
        # every scalar argument of the builder that the chosen version has a field of the same name for sits in
        # that field (a builder branch that puts an argument into its neighbour's slot still yields a decodable frame)
        for k, v in _kwargs(case["kwargs"]).items():
            if k in _body and (v is None or isinstance(v, (int, str, bool))) and not isinstance(_body[k], (list, dict)):
                got = _body[k]
                if isinstance(v, bool) or isinstance(got, bool):
                    got, v = bool(got), bool(v)
                if got != v:
                    out.fail("layout", bname + ":built_value:" + k, {"struct": sname, "variant": case["variant"],
                                                                    "wire_version": hv, "argument": v, "on_the_wire": got})
    pp = _pairing_problem(sname, type(rs))
    if pp:
        out.fail("reply_pairing", sname, pp)
    flex = codec.is_flexible(api, hv)
    if bool(rs.FLEXIBLE_VERSION) != flex:
        out.fail("header_form", sname + ":flexible_flag", {"FLEXIBLE_VERSION": bool(rs.FLEXIBLE_VERSION),
                                                          "reference_flexible": flex})
    return out


# ---------------------------------------------------------------- no_silent_drop
def _get_path(v, path):
    for p in path:
        if v is None:
            return None
        v = v[p]
    return v


def _has_field(schema, path):
    """Does the reference schema have the field at `path` (ints in path = array index)?"""
    cur = schema
    t = None
    for p in path:
        if isinstance(p, int):
            continue
        found = None
        for n, ft in cur:
            if n == p:
                found = ft
        if found is None:
            return False, None
        t = found
        cur = found[2] if _is_arr(found) and not isinstance(found[2], str) else []
    return True, t


# (builder, parameter label, base kwargs variant, kwarg updates per value, path in the reference
#  request, expected decoded value, extra expressibility rule(version, reftype) or None)
def _drop_specs():
    return [
        ("ProduceRequest", "transactional_id", "plain",
         [({"transactional_id": "txn-1"}, "txn-1"), ({"transactional_id": "tx-✓"}, "tx-✓")],
         ["transactional_id"], None),
        ("FetchRequest", "isolation_level", "plain",
         [({"isolation_level": 1}, 1)], ["isolation_level"], None),
        ("OffsetRequest", "isolation_level", "latest",
         [({"isolation_level": 1}, 1)], ["isolation_level"], None),
        ("OffsetRequest", "timestamp", "latest",
         [({"topics": [["t", [[0, 0]]]]}, 0), ({"topics": [["t", [[0, 1500000000000]]]]}, 1500000000000)],
         ["topics", 0, "partitions", 0, "timestamp"], "ts_search"),
        ("OffsetRequest", "timestamp", "latest",          # a search hidden behind a sentinel partition
         [({"topics": [["t", [[3, -1], [0, 1]]]]}, 1), ({"topics": [["t", [[3, -2]]], ["u", [[0, -1], [1, 7]]]]}, 7)],
         ["topics", -1, "partitions", -1, "timestamp"], "ts_search"),
        ("OffsetRequest", "timestamp_sentinel", "latest",
         [({"topics": [["t", [[0, -2]]]]}, -2), ({"topics": [["t", [[0, -1]]]]}, -1)],
         ["topics", 0, "partitions", 0, "timestamp"], "always"),
        ("FindCoordinatorRequest", "coordinator_type", "group",
         [({"coordinator_type": 1, "coordinator_key": "txn"}, 1)], ["key_type"], None),
        ("DescribeGroupsRequest", "include_authorized_operations", "plain",
         [({"include_authorized_operations": True}, True)], ["include_authorized_operations"], None),
        ("CreateTopicsRequest", "validate_only", "plain",
         [({"validate_only": True}, True)], ["validate_only"], None),
        ("DescribeConfigsRequest", "include_synonyms", "keys",
         [({"include_synonyms": True}, True)], ["include_synonyms"], None),
        ("DeleteRecordsRequest", "tags", "plain",
         [({"tags": {"5": b"ab"}}, {5: b"ab"}), ({"tags": {"1": b""}}, {1: b""})], ["_tags"], None),
        ("OffsetFetchRequest", "all_partitions", "parts",
         [({"partitions": None}, None)], ["topics"], "nullable"),
        # topics=None asks for ALL topics: a null array in v1+, the empty array in v0 (where empty = all)
        ("MetadataRequest", "all_topics", "topics",
         [({"topics": None}, None)], ["topics"], "meta_all"),
        # topics=[] asks for NO topics from v1 on (the bootstrap request): the empty array, never the null array
        ("MetadataRequest", "no_topics", "topics",
         [({"topics": []}, [])], ["topics"], None),
    ]


# parameters outside the property's list that the builders drop silently (information only)
def _info_specs():
    return [
        ("JoinGroupRequest", "group_instance_id", "dynamic", {"group_instance_id": "inst-1"},
         ["group_instance_id"], "inst-1"),
        ("SyncGroupRequest", "group_instance_id", "leader", {"group_instance_id": "inst-1"},
         ["group_instance_id"], "inst-1"),
        ("MetadataRequest", "allow_auto_topic_creation", "topics", {"allow_auto_topic_creation": False},
         ["allow_auto_create"], False),
        ("FetchRequest", "rack_id", "plain", {"rack_id": "rack-a"}, ["rack_id"], "rack-a"),
        ("FetchRequest", "max_bytes", "plain", {"max_bytes": 12345}, ["max_bytes"], 12345),
        ("DescribeAclsRequest", "resource_pattern_type_filter", "literal", {"resource_pattern_type_filter": 4},
         ["pattern_type_filter"], 4),
        ("CreateAclsRequest", "resource_pattern_type", "literal", {"resource_pattern_type_filter": 4},
         ["creations", 0, "resource_pattern_type"], 4),
        ("DeleteAclsRequest", "resource_pattern_type_filter", "literal", {"resource_pattern_type_filter": 4},
         ["filters", 0, "pattern_type_filter"], 4),
    ]


def _variant_kwargs(bname, vname):
    for n, _, kw in BUILDER_KWARGS[bname]:
        if n == vname:
            return dict(kw)
    raise KeyError((bname, vname))


def _drop_cases(shard, nshards):
    L = lib()
    i = 0
    for bname, param, base, values, path, rule in _drop_specs():
        b = L["builders"].get(bname)
        if b is None:
            continue
        for ver in sorted({c.API_VERSION for c in b._CLASSES}):
            for upd, want in values:
                if i % nshards == shard:
                    kw = _variant_kwargs(bname, base)
                    kw.update(upd)
                    yield {"builder": bname, "param": param, "kwargs": kw, "version": ver, "path": path,
                           "want": want, "rule": rule, "info_only": False}
                i += 1
    for bname, param, base, upd, path, want in _info_specs():
        b = L["builders"].get(bname)
        if b is None:
            continue
        for ver in sorted({c.API_VERSION for c in b._CLASSES}):
            if i % nshards == shard:
                kw = _variant_kwargs(bname, base)
                kw.update(upd)
                yield {"builder": bname, "param": param, "kwargs": kw, "version": ver, "path": path,
                       "want": want, "rule": None, "info_only": True}
            i += 1


def exec_drop(case):
    from aiokafka.errors import IncompatibleBrokerVersion
    out = Outcome()
    L = lib()
    codec = L["codec"]
    bname, param, ver = case["builder"], case["param"], case["version"]
    bcls = L["builders"][bname]
    api = bcls.API_KEY
    info_only = case.get("info_only", False)
    site = "%s:%s" % (bname, param)
    out.nontrivial = not info_only
    schema = codec.request_schema(api, ver)
    if schema is None:
        out.fail("no_silent_drop", site + ":no_reference", {"api": api, "version": ver})
        return out
    has, ftype = _has_field(schema, case["path"])
    rule = case.get("rule")
    if rule == "ts_search":
        # ListOffsets v0 has a timestamp field but means "offsets before"; a timestamp
        # *search* (ts >= 0) needs v1+.  Sentinels -1/-2 are expressible everywhere.
        expressible = has and (ver >= 1 or case["want"] < 0)
    elif rule == "nullable":
        expressible = has and _is_arr(ftype) and "?" in ftype[1]
    elif rule == "meta_all":
        expressible = has
        if has and not (_is_arr(ftype) and "?" in ftype[1]):
            case = dict(case, want=[])          # Metadata v0: the empty array means all topics
    else:
        expressible = has
    try:
        req = bcls(**_kwargs(case["kwargs"]))
        rs = req.prepare({api: (ver, ver)})
        exc = None
    except IncompatibleBrokerVersion as e:
        rs, exc = None, e
    except Exception as e:
        out.fail("no_silent_drop", site + ":" + type(e).__name__, {"version": ver, "error": repr(e)[:300]})
        return out
    if rs is None:
        out.label("rejected")
        if expressible and not info_only:
            out.fail("version_choice", site + ":needless_reject",
                     {"version": ver, "error": repr(exc), "note": "the reference schema of this version has the field"})
        return out
    if rs.API_VERSION != ver:
        # version_choice reports this; the wire version decides which schema applies
        out.label("other_version_chosen")
        schema = codec.request_schema(api, rs.API_VERSION) or schema
    try:
        body = bytes(rs.encode())
        dec = codec.decode(schema, body)
    except Exception as e:
        if info_only:
            out.label("info_undecodable:%s" % site)
            return out
        out.fail("no_silent_drop", site, {"version": ver, "struct": type(rs).__name__,
                                          "error": repr(e)[:300], "note": "built request is not decodable by the reference"})
        return out
    want = case["want"]
    if isinstance(want, dict):
        want = {int(k): bytes(v) for k, v in want.items()}
    got = _get_path(dec, case["path"]) if has else "<no such field in v%d>" % ver
    transmitted = expressible and got == want
    if info_only:
        out.label(("info_transmitted:" if transmitted else "info_silent_drop:") + site + "@v%d" % ver)
        out.info = {"parameter": site, "version": ver, "transmitted": transmitted}
        return out
    out.label("transmitted" if transmitted else "dropped")
    if not transmitted:
        out.fail("no_silent_drop", site,
                 {"version": ver, "struct": type(rs).__name__, "parameter_value": repr(case["want"]),
                  "decoded_by_reference": repr(got)[:200], "expressible_in_version": bool(expressible),
                  "bytes": _hex(body)})
    return out


# ---------------------------------------------------------------- primitives no schema reaches (information)
def _used_primitives():
    from aiokafka.protocol import api as papi
    from aiokafka.protocol.types import Array, Schema
    used = set()

    def walk(f):
        if isinstance(f, Schema):
            used.add("Schema")
            for x in f.fields:
                walk(x)
        elif isinstance(f, Array):
            used.add(type(f).__name__)
            walk(f.array_of)
        elif isinstance(f, type):
            used.add(f.__name__)
        else:
            used.add(type(f).__name__)
    for S in lib()["structs"].values():
        walk(S["cls"].SCHEMA)
    for h in (papi.RequestHeader_v1, papi.RequestHeader_v2, papi.ResponseHeader_v0, papi.ResponseHeader_v1):
        walk(h.SCHEMA)
    # compact forms are built on the unsigned varint
    if used & {"CompactString", "CompactArray", "CompactBytes", "TaggedFields"}:
        used.add("UnsignedVarInt32")
    return used


def _zigzag(v, bits):
    from vlib.refproto.codec import enc_uvarint
    return enc_uvarint(((v << 1) ^ (v >> (bits - 1))) & ((1 << bits) - 1))


_PRIM_REF = {
    "VarInt32": (lambda v: _zigzag(v, 32), [0, 1, -1, 63, 64, -64, -65, 300, -300, 8191, 8192, 2 ** 31 - 1, -2 ** 31]),
    "VarInt64": (lambda v: _zigzag(v, 64), [0, 1, -1, 63, 64, -64, -65, 300, -300, 2 ** 31, 2 ** 63 - 1, -2 ** 63]),
    "UInt32": (lambda v: _struct.pack(">I", v), [0, 1, 2 ** 31, 2 ** 32 - 1]),
    "CompactBytes": (lambda v: (b"\x00" if v is None else lib()["codec"].enc_uvarint(len(v) + 1) + v),
                     [None, b"", b"a", bytes(126), bytes(127), bytes(128), bytes(16383)]),
    "UnsignedVarInt32": (lambda v: lib()["codec"].enc_uvarint(v), [0, 1, 127, 128, 16383, 16384, 2 ** 31 - 1]),
    "Float64": (lambda v: _struct.pack(">d", v), [0.0, 1.5, -1e308]),
}


def _prim_cases(shard, nshards):
    import aiokafka.protocol.types as T
    from aiokafka.protocol.abstract import AbstractType
    used = _used_primitives()
    i = 0
    for n in sorted(vars(T)):
        c = getattr(T, n)
        if not isinstance(c, type) or c.__module__ != T.__name__:
            continue
        if not (issubclass(c, AbstractType) or hasattr(c, "encode")) or n in ("Schema", "Array", "CompactArray"):
            continue
        if n in used:
            continue
        fn, vals = _PRIM_REF.get(n, (None, [None]))
        for v in vals:
            if i % nshards == shard:
                yield {"type": n, "value": v, "has_reference": fn is not None}
            i += 1


def exec_prim(case):
    import aiokafka.protocol.types as T
    out = Outcome()
    n = case["type"]
    out.label("unused_primitive:" + n)
    if not case["has_reference"]:
        out.label("info_no_reference:" + n)
        return out
    fn, _ = _PRIM_REF[n]
    t = getattr(T, n)
    t = t() if n in ("String", "CompactString") else t
    v = case["value"]
    want = fn(v)
    res = {"type": n, "value": repr(v)[:60]}
    try:
        got = bytes(t.encode(v))
        res["encode_equal"] = got == want
        if got != want:
            out.label("info_mismatch:%s.encode" % n)
            res["expected"], res["actual"] = _hex(want, 64), _hex(got, 64)
    except Exception as e:
        out.label("info_mismatch:%s.encode_raises" % n)
        res["encode_error"] = repr(e)[:100]
    try:
        back = t.decode(io.BytesIO(want))
        res["decode_equal"] = back == v
        if back != v:
            out.label("info_mismatch:%s.decode" % n)
            res["decoded"] = repr(back)[:60]
    except Exception as e:
        out.label("info_mismatch:%s.decode_raises" % n)
        res["decode_error"] = repr(e)[:100]
    out.info = res
    out.nontrivial = any(k.startswith("info_mismatch") for k in out.labels)
    return out


# ---------------------------------------------------------------- campaigns
def campaigns(tier):
    thorough = tier == "thorough"
    per_struct = 1000 if thorough else 60
    camps = [
        Campaign("struct_static", "enum", execute=exec_static, cases=_static_cases, exhaustive=True),
        Campaign("headers", "enum", execute=exec_header, cases=_header_cases, exhaustive=True),
        Campaign("version_choice", "enum", execute=exec_choice, cases=_choice_cases, exhaustive=True),
        Campaign("no_silent_drop", "enum", execute=exec_drop, cases=_drop_cases, exhaustive=True),
        Campaign("struct_sweep", "enum", execute=exec_struct, cases=_sweep_cases(per_struct), exhaustive=False),
    ]
    hyp_n = {"produce": 600, "fetch": 900, "offset": 500, "metadata": 600, "commit": 500, "group": 600,
             "transaction": 400, "coordination": 200, "admin_a": 1200, "admin_b": 1000, "admin_c": 900}
    for g in GROUPS:
        camps.append(Campaign("struct_hyp_" + g, "hyp", execute=exec_struct, strategy=_struct_strategy(g),
                              examples=hyp_n[g] * (20 if thorough else 1),
                              shrink_wall=30.0 if thorough else 6.0))
    camps.append(Campaign("unused_primitives", "enum", execute=exec_prim, cases=_prim_cases, exhaustive=True))
    return camps
