from .cluster import Cluster, API, LATEST  # noqa
from . import cluster  # noqa
