"""Shared helpers for the record-codec checks (C09 round trip; usable by C10).

Nothing in here computes an expectation with the code under test: expectations
come from the case value and from vlib.refrecords.  The helpers only *drive*
the aiokafka classes and normalise what they return.
"""
import json
import os
import struct
import subprocess
import sys
import time

from vlib import refrecords as R
from vlib.core import HarnessError, Outcome, jsonify, unjsonify

VERIF = os.path.dirname(os.path.dirname(os.path.abspath(__file__)))

I64_MAX = (1 << 63) - 1
# zig-zag varint size changes at these lengths (1->2, 2->3, 3->4 bytes)
BOUNDARY_LENS = (63, 64, 8191, 8192, 1048575, 1048576)
VALID_CODECS = {0: (0, 1, 2), 1: (0, 1, 2, 3), 2: (0, 1, 2, 3, 4)}   # lz4 not for v0, zstd only v2
V2_HEADER_SIZE = 61
LEGACY_OVERHEAD = {0: 12 + 14, 1: 12 + 22}


# ------------------------------------------------------------------ implementations
class Impl:
    __slots__ = ("name", "V2Builder", "V2Batch", "LegacyBuilder", "LegacyBatch", "MemoryRecords")

    def __init__(self, name, **kw):
        self.name = name
        for k, v in kw.items():
            setattr(self, k, v)


_IMPLS = None


def impls():
    """[Impl] of the staged aiokafka in this process.

    With the extension: "cy" (public names = compiled classes) and "py" (the
    *_Py classes; they still use the compiled varint/crc helpers).  In a process
    started with AIOKAFKA_NO_EXTENSIONS=1: only "purepy" (public names)."""
    global _IMPLS
    if _IMPLS is not None:
        return _IMPLS
    from aiokafka.record import default_records as dr
    from aiokafka.record import legacy_records as lr
    from aiokafka.record import memory_records as mr
    from aiokafka.util import NO_EXTENSIONS
    py = dict(V2Builder=dr._DefaultRecordBatchBuilderPy, V2Batch=dr._DefaultRecordBatchPy,
              LegacyBuilder=lr._LegacyRecordBatchBuilderPy, LegacyBatch=lr._LegacyRecordBatchPy,
              MemoryRecords=mr._MemoryRecordsPy)
    pub = dict(V2Builder=dr.DefaultRecordBatchBuilder, V2Batch=dr.DefaultRecordBatch,
               LegacyBuilder=lr.LegacyRecordBatchBuilder, LegacyBatch=lr.LegacyRecordBatch,
               MemoryRecords=mr.MemoryRecords)
    if NO_EXTENSIONS:
        if any(pub[k] is not py[k] for k in py):
            raise HarnessError("AIOKAFKA_NO_EXTENSIONS set but public record classes are not the Python ones")
        _IMPLS = [Impl("purepy", **pub)]
    else:
        if any(pub[k] is py[k] for k in py):
            raise HarnessError("compiled record extension is not in use (import fell back to Python): %r"
                               % sorted(k for k in py if pub[k] is py[k]))
        _IMPLS = [Impl("cy", **pub), Impl("py", **py)]
    return _IMPLS


# ------------------------------------------------------------------ case expansion
def blob(spec):
    """None | bytes | {"p": pattern bytes, "n": length} -> bytes or None."""
    if spec is None or isinstance(spec, bytes):
        return spec
    p, n = spec["p"], spec["n"]
    if not p:
        p = b"\x00"
    return (p * (n // len(p) + 1))[:n]


def clamp_ts(t):
    return max(0, min(I64_MAX, t))


def expand_rec(r, t0):
    """case record -> dict(ts=int|None, key, value, headers=[(str, bytes|None)])."""
    dt = r.get("dt")
    return {"ts": None if dt is None else clamp_ts(t0 + dt),
            "key": blob(r.get("k")), "value": blob(r.get("v")),
            "headers": [(h[0], blob(h[1])) for h in (r.get("h") or [])]}


def pick_codec(magic, ci):
    v = VALID_CODECS[magic]
    return v[ci % len(v)]


def kvh_size(key, value, headers):
    """Reference size of the key/value/headers part of a v2 record."""
    n = len(R.enc_varint(-1 if key is None else len(key))) + (len(key) if key is not None else 0)
    n += len(R.enc_varint(-1 if value is None else len(value))) + (len(value) if value is not None else 0)
    n += len(R.enc_varint(len(headers)))
    for hk, hv in headers:
        hkb = hk.encode("utf-8")
        n += len(R.enc_varint(len(hkb))) + len(hkb)
        n += len(R.enc_varint(-1 if hv is None else len(hv))) + (len(hv) if hv is not None else 0)
    return n


def record_classes(rec, out=None):
    """Histogram labels of one expanded record; returns (has_null_or_header, has_boundary)."""
    labels = set()
    null_or_hdr = False
    boundary = False
    for nm in ("key", "value"):
        x = rec[nm]
        if x is None:
            labels.add("null_" + nm)
            null_or_hdr = True
        else:
            if len(x) == 0:
                labels.add("empty_" + nm)
            if len(x) in BOUNDARY_LENS:
                labels.add("len_%d" % len(x))
                boundary = True
            if len(x) >= 8191:
                labels.add("large_field")
    if rec["headers"]:
        null_or_hdr = True
        labels.add("headers")
        if len(rec["headers"]) in BOUNDARY_LENS:
            labels.add("header_count_%d" % len(rec["headers"]))
            boundary = True
        for hk, hv in rec["headers"]:
            if hv is None:
                labels.add("null_header_value")
            elif len(hv) in BOUNDARY_LENS:
                labels.add("len_%d" % len(hv))
                boundary = True
            hkb = hk.encode("utf-8")
            if len(hkb) != len(hk):
                labels.add("non_ascii_header_key")
            if len(hkb) in BOUNDARY_LENS:
                labels.add("len_%d" % len(hkb))
                boundary = True
    if out is not None:
        out.label(*labels)
    return null_or_hdr, boundary


def now_ms():
    return int(time.time() * 1000)


def legacy_crc_of(msg_bytes):
    """CRC field of an encoded legacy message (reference encoding)."""
    return struct.unpack_from(">I", msg_bytes, 12)[0]


def ref_legacy_wrapper(magic, recs, codec, ts_type=0, wrapper_ts=None, rel0=0):
    """Compressed v0/v1 wrapper message built from the reference primitives.

    recs: [{"offset" (absolute), "ts", "key", "value"}].  v1: inner offsets are
    relative (rel0 + distance from the first; rel0 > 0 models a compacted head);
    v0: inner offsets absolute.  Wrapper offset = last absolute offset.
    Returns (bytes, [inner message crc])."""
    first = recs[0]["offset"]
    inner = bytearray()
    crcs = []
    for r in recs:
        off = (rel0 + r["offset"] - first) if magic == 1 else r["offset"]
        m = R.enc_legacy_message(magic, off, r["key"], r["value"], r["ts"], 0)
        crcs.append(legacy_crc_of(m))
        inner += m
    if wrapper_ts is None:
        wrapper_ts = max((r["ts"] if r["ts"] is not None else -1) for r in recs)
    attrs = (codec & 7) | (0x08 if (ts_type and magic == 1) else 0)
    return R.enc_legacy_message(magic, recs[-1]["offset"], None, R.compress(codec, bytes(inner)),
                                wrapper_ts if magic == 1 else None, attrs), crcs


# ------------------------------------------------------------------ reading (drive + normalise)
V2_BATCH_FIELDS = ("base_offset", "magic", "crc", "attributes", "compression_type", "timestamp_type",
                   "is_transactional", "is_control_batch", "last_offset_delta", "first_timestamp",
                   "max_timestamp", "producer_id", "producer_epoch", "base_sequence", "next_offset")


def _rec_tuple(r, legacy):
    hs = r.headers
    return {"offset": r.offset, "timestamp": r.timestamp, "timestamp_type": r.timestamp_type,
            "key": r.key, "value": r.value, "headers": [[h[0], h[1]] for h in hs],
            "checksum": r.checksum}


def read_batch(batch, magic):
    """Drive a batch object of either implementation: -> {"fields": {...}, "records": [...]}.
    validate_crc() is called before iteration, as the fetcher does."""
    fields = {}
    if magic >= 2:
        for f in V2_BATCH_FIELDS:
            fields[f] = getattr(batch, f)
    else:
        for f in ("next_offset", "is_control_batch", "is_transactional", "producer_id"):
            fields[f] = getattr(batch, f)
    fields["crc_valid"] = batch.validate_crc()
    recs = [_rec_tuple(r, magic < 2) for r in batch]
    return {"fields": fields, "records": recs}


def drain_memory_records(mr):
    """has_next()/next_batch() protocol of the fetcher -> list of batch objects."""
    res = []
    guard = 0
    while mr.has_next():
        b = mr.next_batch()
        if b is None:
            raise AssertionError("has_next() was true but next_batch() returned None")
        res.append(b)
        guard += 1
        if guard > 100000:
            raise AssertionError("MemoryRecords does not terminate")
    tail = mr.next_batch()
    if tail is not None:
        raise AssertionError("has_next() was false but next_batch() returned a batch")
    return res


def exc_str(e):
    return "%s: %s" % (type(e).__name__, str(e)[:200])


REC_FIELDS = ("offset", "timestamp", "timestamp_type", "key", "value", "headers", "checksum")


def compare_read(got, want, skip_fields=()):
    """-> list of (what, detail) differences between read_batch() output and expectation."""
    diffs = []
    for f, wv in want["fields"].items():
        if f in skip_fields or wv is NotImplemented:
            continue
        gv = got["fields"].get(f)
        if gv != wv or (isinstance(wv, bool) and not isinstance(gv, bool)):
            diffs.append((f, {"field": f, "got": gv, "want": wv}))
    g, w = got["records"], want["records"]
    if len(g) != len(w):
        diffs.append(("record_count", {"got": len(g), "want": len(w),
                                       "got_offsets": [r["offset"] for r in g][:20]}))
        return diffs
    for i, (gr, wr) in enumerate(zip(g, w)):
        for f in REC_FIELDS:
            if f in wr and gr[f] != wr[f]:
                diffs.append(("record_" + f, {"index": i, "field": f, "got": _short(gr[f]),
                                              "want": _short(wr[f]),
                                              "all_got": [r[f] for r in g][:12] if f in ("offset", "timestamp", "timestamp_type") else None}))
                break
        if diffs and diffs[-1][0].startswith("record_"):
            break
    return diffs


def _short(x):
    if isinstance(x, (bytes, bytearray, memoryview)) and len(x) > 80:
        return {"len": len(x), "head": bytes(x[:40])}
    return x


# ------------------------------------------------------------------ pure-Python child process
class PureChild:
    """A long-lived `AIOKAFKA_NO_EXTENSIONS=1` interpreter that evaluates cases with the same
    execute functions (so public names are the pure-Python codec incl. varint/CRC helpers)."""

    def __init__(self, module):
        env = dict(os.environ)
        env["AIOKAFKA_NO_EXTENSIONS"] = "1"
        env["PYTHONHASHSEED"] = "0"
        deps = os.path.join(VERIF, ".deps")
        env["PYTHONPATH"] = os.pathsep.join([VERIF] + ([deps] if os.path.isdir(deps) else []))
        if not env.get("VERIF_STAGE"):
            raise HarnessError("VERIF_STAGE not set")
        self.p = subprocess.Popen([sys.executable, "-m", "props._rec_child", module], cwd=VERIF, env=env,
                                  stdin=subprocess.PIPE, stdout=subprocess.PIPE)
        hello = self.p.stdout.readline()
        if not hello.startswith(b"READY purepy"):
            raise HarnessError("pure-Python child did not start: %r" % hello)

    def call(self, fn, case):
        self.p.stdin.write(json.dumps({"fn": fn, "case": jsonify(case)}).encode() + b"\n")
        self.p.stdin.flush()
        line = self.p.stdout.readline()
        if not line:
            raise HarnessError("pure-Python child died (rc=%s)" % self.p.poll())
        d = json.loads(line)
        if "error" in d:
            raise HarnessError("pure-Python child: " + d["error"])
        out = Outcome()
        out.nontrivial = d["nontrivial"]
        out.label(*d["labels"])
        out.info = unjsonify(d["info"])
        for f in d["failures"]:
            out.fail(f["clause"], f["site"], unjsonify(f["detail"]), **unjsonify(f["params"]))
        return out


_CHILDREN = {}


def pure_call(module, fn, case):
    ch = _CHILDREN.get(module)
    if ch is None or ch.p.poll() is not None:
        ch = _CHILDREN[module] = PureChild(module)
    return ch.call(fn, case)
