"""C15 - the sticky assignor keeps assignments that need not move.

A case is a first rebalance of a fresh group (no user data) followed by one or more further
rebalances; every member carries the assignment it received in the previous round to the
next one through the real path (on_assignment -> metadata() -> encode -> decode -> assign,
see props/_assign_common.py).  Generation mode "default" never calls
on_generation_assignment (what the coordinator really does, user data carries -1);
"positive" calls it with the group generation 1, 2, ...

Steps after the first round:
  same        nothing changes
  remove      a non-empty proper subset of the members leaves
  add         1..2 brand-new members (no user data) join
  partitions  partition counts / metadata presence of some topics change (validity only)
  return      the members that left in earlier steps come back with the user data they left with (validity only;
              under generation mode "positive" their claims conflict with the current owners' newer ones)

Oracle clauses (predicates over two consecutive decoded results):
  idempotent      same -> result equals the previous result, member by member
  survivors_keep  remove, all members of the previous round subscribed to the same topic set
                  -> every partition a survivor owned it still owns
  no_old_to_old   add, all old and new members subscribed to the same topic set
                  -> no partition owned by an old member is now owned by a different old member
  keeps_what_need_not_move  return under generation mode "positive", same topic set for everybody, nobody who stayed
                  owns more than one partition (already balanced with the returning members empty)
                  -> everybody who stayed keeps exactly what it had
  exact_cover, sticky_kip54   C14's validity clauses, on every round
"""
from vlib.core import Outcome
from vlib.runner import Campaign

from props import _assign_common as ac

ID = "C15"
LEVEL = "exploration"
RULE = ("Cases: (generation mode default(-1)/positive, first round = C14 bounded input for the sticky assignor, "
        "list of steps same/remove/add/partitions); previous assignments travel as real user data. Enumerated: "
        "every first-round input of 1..4 members x 1..3 topics x {no metadata, 0..4 partitions} x every non-empty "
        "subscription per member (quick: 1..3 members, {no metadata, 1..3 partitions}), each followed by exactly one second round "
        "out of: same; minus every non-empty proper subset of members; plus new members {m9}, {a0}, {a0,m9} "
        "(sorting after/before the old ones) subscribing like m0 or to all topics; generation mode default for all of "
        "these, positive for first rounds of up to 3 members (quick: up to 2). "
        "Enumerated deeper chains with identical subscriptions: t0 with 1..9 (thorough 1..12) partitions, optional "
        "second topic subscribed by all (0..3 partitions; also with every other member listing the two topics in the "
        "opposite order) or by nobody (1..2), 1..3 initial members, every sequence "
        "of 2..3 (thorough 2..4) steps over {same, add member sorting first/last, remove first/last member}. "
        "Random: chains of 1..4 steps after a first round of up to 8 members, 6 topics, 12 partitions. "
        "Non-trivial = some remove/add step whose previous round gave every member at least one partition. "
        "Distinct = distinct case value.")
ASSUMPTIONS = ["cluster stub with ClusterMetadata's partitions_for_topic()/topics() semantics",
               "each simulated member's sticky class attributes are swapped in/out by the harness "
               "(one class = one member in production); new members start with member_assignment=None",
               "PYTHONHASHSEED=0 (the sticky assignor's result can depend on set iteration order of "
               "TopicPartition tuples)",
               "enumerated pairs reuse the first round's result for all second rounds of the same first-round "
               "input within a worker (the assignor is deterministic under a fixed hash seed)"]


def _norm(result):
    return {m: sorted(v) for m, v in result.items()}


def _unsubscribed_topic(layout, members):
    subscribed = {t for _, ts in members for t in ts}
    return any(n and t not in subscribed for t, n in layout.items())


def _fail_round(out, e, kind, k, layout, members, params):
    out.fail("exact_cover", "%s:raises:%s" % (kind, e.exc_type),
             {"stage": e.stage, "error": e.exc_repr, "layout": layout, "members": members, "round": k},
             **params)


_MEMO = {"key": None, "val": None}


def _first_round(gen, layout, members, memo_key):
    """Returns (group, result, failures[(clause, site, detail)])."""
    if memo_key is not None and _MEMO["key"] == memo_key:
        snap, result, fails = _MEMO["val"]
        g = ac.Group("sticky", gen)
        g.restore(snap)
        return g, result, fails
    g = ac.Group("sticky", gen)
    tmp = Outcome()
    params = {"gen": gen, "round_kind": "first",
              "cluster_topic_nobody_subscribes": _unsubscribed_topic(layout, members)}
    result = None
    try:
        result = g.rebalance(layout, members)
    except ac.AssignorRaised as e:
        _fail_round(tmp, e, "first", 0, layout, members, params)
    if result is not None:
        if ac.validity(tmp, "sticky", layout, members, result, prefix="first:", **params) is None:
            result = None
    if memo_key is not None:
        _MEMO["key"] = memo_key
        _MEMO["val"] = (g.snapshot(), result, list(tmp.failures))
    return g, result, list(tmp.failures)


def run_chain(gen, layout, members, steps, memo_key=None):
    out = Outcome()
    members = ac.norm_members(members)
    layout = dict(layout)
    out.label("gen=" + gen, "first:members=%d" % len(members),
              "first:subs_identical" if ac.all_identical(members) else "first:subs_differ")
    g, result, fails = _first_round(gen, layout, members, memo_key)
    out.failures.extend(fails)
    if result is None:
        return out
    nsteps = 0
    gone = []        # members that left and may come back with the (stale) state they left with
    for k, step in enumerate(steps, 1):
        kind = step[0]
        prev_members, prev_result, prev_layout = members, result, layout
        if kind == "return":
            back = [mt for mt in gone if not any(mt[0] == m for m, _ in members)]
            if not back:
                out.label("step_skipped")
                continue
            gone = []
            members = sorted(members + back, key=lambda mt: mt[0])
            out.label("round:return_with_stale_claims")
        elif kind == "remove":
            n = len(members)
            if n < 2:
                out.label("step_skipped")
                continue
            who = sorted({i % n for i in step[1]})
            if not who:
                out.label("step_skipped")
                continue
            if len(who) == n:
                who.pop()
            gone += [mt for i, mt in enumerate(members) if i in who]
            members = [mt for i, mt in enumerate(members) if i not in who]
        elif kind == "add":
            new = []
            for name, topics in step[1]:
                if any(name == m for m, _ in members + new):
                    continue
                if topics == "same":
                    topics = list(members[0][1])
                new.append((str(name), [str(t) for t in topics]))
            if not new:
                out.label("step_skipped")
                continue
            front = [x for x in new if x[0] < min(m for m, _ in members)]
            members = front + members + [x for x in new if x not in front]
        elif kind == "partitions":
            layout = dict(layout)
            layout.update(step[1])
        elif kind != "same":
            raise ValueError("unknown step %r" % (step,))
        nsteps += 1
        ident_prev = ac.all_identical(prev_members)
        ident_both = ac.all_identical(prev_members + members)
        # a topic with partitions that nobody subscribes to (e.g. full-cluster metadata of a pattern
        # subscriber): part of the cluster layout, never part of anyone's subscription
        unsub = _unsubscribed_topic(layout, members)
        # same topic *set* for everybody but not the same list order on the wire (subscriptions are
        # list(set) in every member's own process, so orders do differ in practice)
        order = ident_both and len({tuple(ts) for _, ts in prev_members + members}) > 1
        params = {"gen": gen, "round_kind": kind, "cluster_topic_nobody_subscribes": unsub,
                  "same_topics_different_order": order}
        if order:
            out.label("round:same_topics_different_order")
        out.label("round:" + kind)
        if unsub:
            out.label("round:cluster_topic_nobody_subscribes")
        if kind in ("remove", "add"):
            if all(len(prev_result[m]) >= 1 for m, _ in prev_members):
                out.nontrivial = True
                out.label("round:%s:after_everyone_had_a_partition" % kind)
            out.label("round:%s:%s" % (kind, "identical_subs(clause applies)" if ident_both
                                       else "different_subs(validity only)"))
        try:
            result = g.rebalance(layout, members)
        except ac.AssignorRaised as e:
            _fail_round(out, e, kind, k, layout, members, params)
            return out
        if ac.validity(out, "sticky", layout, members, result, prefix=kind + ":", **params) is None:
            return out
        ctx = {"round": k, "layout": layout, "previous_members": prev_members, "members": members,
               "previous_result": prev_result, "result": result}
        if kind == "same":
            a, b = _norm(prev_result), _norm(result)
            if a != b:
                moved = sorted(m for m in a if a[m] != b.get(m))
                out.fail("idempotent", "", dict(ctx, members_changed=moved), **params)
                return out
        elif kind == "remove" and ident_prev:
            for m, _ in members:
                lost = sorted(set(prev_result[m]) - set(result[m]))
                if lost:
                    out.fail("survivors_keep", "", dict(ctx, survivor=m, lost=lost), **params)
                    return out
        elif kind == "return" and ident_both and gen == "positive":
            # Members coming back with older-generation claims lose every conflict against the current owners ("higher
            # generations overwrite lower generations"), so they start the round empty.  When that starting point is
            # already balanced (nobody who stayed owns more than one partition) the assignor has nothing to move and
            # leaves its reassignment loop at once: everybody who stayed keeps exactly what it had.
            # (Nothing stronger holds: with more partitions the previous-owner preference hands partitions back to the
            # returning members in partition order and may then refill a drained member from another one that stayed,
            # exactly as the Java assignor does - see DESIGN.md 8.4.)
            if max(len(prev_result[m]) for m, _ in prev_members) <= 1:
                out.label("round:return:nothing_had_to_move")
                for m, _ in prev_members:
                    if sorted(result[m]) != sorted(prev_result[m]):
                        out.fail("keeps_what_need_not_move", "return",
                                 dict(ctx, member=m, had=sorted(prev_result[m]), has=sorted(result[m])), **params)
                        return out
        elif kind == "add" and ident_both:
            old = {m for m, _ in prev_members}
            now = {tp: m for m, v in result.items() for tp in v}
            for m, _ in prev_members:
                for tp in prev_result[m]:
                    o = now.get(tp)
                    if o is not None and o != m and o in old:
                        out.fail("no_old_to_old", "", dict(ctx, partition=tp, was=m, now=o), **params)
                        return out
    out.label("steps=%d" % nsteps)
    out.info = {"loads": ac.result_summary(result)}
    return out


# ---------------------------------------------------------------- enumerated pairs

def _seconds(topics, subs):
    nm, nt = len(subs), len(topics)
    yield ["same"]
    for mask in range(1, (1 << nm) - 1):
        yield ["remove", [i for i in range(nm) if (mask >> i) & 1]]
    alls = list(range(nt))
    sub_choices = [list(subs[0])] + ([alls] if list(subs[0]) != alls else [])
    for names in (["m9"], ["a0"], ["a0", "m9"]):
        for s in sub_choices:
            yield ["add", names, s]


def _pair_cases(shard, nshards, max_members, part_choices, positive_max_members):
    i = 0
    for topics, subs in ac.bounded_inputs(max_members, part_choices=part_choices):
        i += 1
        if i % nshards != shard:
            continue
        for gen in ac.GEN_MODES:
            if gen == "positive" and len(subs) > positive_max_members:
                continue
            for second in _seconds(topics, subs):
                yield {"topics": list(topics), "subs": [list(s) for s in subs], "gen": gen, "second": second}


def exec_pair(case):
    layout, members = ac.expand_bounded(case["topics"], case["subs"])
    sec = case["second"]
    if sec[0] == "add":
        step = ("add", [(n, ["t%d" % j for j in sec[2]]) for n in sec[1]])
    elif sec[0] == "remove":
        step = ("remove", list(sec[1]))
    else:
        step = ("same",)
    key = (case["gen"], tuple(case["topics"]), tuple(tuple(s) for s in case["subs"]))
    return run_chain(case["gen"], layout, members, [step], memo_key=key)


# ---------------------------------------------------------------- random chains

TOPIC_POOL = ["t0", "t1", "t10", "t2", "a", "B"]
MEMBER_POOL = ["m0", "m1", "m10", "m2", "c-a", "c-b", "C", "z"]


def _strat_chain():
    from hypothesis import strategies as st
    count = st.one_of(st.none(), st.integers(0, 12), st.integers(1, 4))
    sub = st.lists(st.sampled_from(TOPIC_POOL), min_size=1, max_size=len(TOPIC_POOL), unique=True)

    @st.composite
    def case(draw):
        topics = draw(st.lists(st.sampled_from(TOPIC_POOL), min_size=1, max_size=len(TOPIC_POOL), unique=True))
        layout = {t: draw(count) for t in topics}
        nm = draw(st.integers(1, len(MEMBER_POOL)))
        names = draw(st.lists(st.sampled_from(MEMBER_POOL), min_size=nm, max_size=nm, unique=True))
        identical = draw(st.sampled_from([True, True, False]))
        if identical:
            s = draw(st.one_of(st.just(list(topics)), sub))
            members = [[m, list(s)] for m in names]
        else:
            members = [[m, draw(sub)] for m in names]
        newsub = st.just("same") if identical and draw(st.integers(0, 4)) else st.one_of(st.just("same"), sub)
        step = st.one_of(
            st.just(["same"]),
            st.just(["return"]),
            st.tuples(st.just("remove"), st.lists(st.integers(0, 11), min_size=1, max_size=4)),
            st.tuples(st.just("add"), st.lists(st.tuples(st.sampled_from(["a", "n", "zz", "m1"]), newsub),
                                                min_size=1, max_size=2)),
            st.tuples(st.just("partitions"),
                      st.dictionaries(st.sampled_from(TOPIC_POOL), count, min_size=1, max_size=2)),
        )
        steps = draw(st.lists(step, min_size=1, max_size=4))
        return {"gen": draw(st.sampled_from(ac.GEN_MODES)), "first": {"topics": layout, "members": members},
                "steps": steps}

    return case()


def exec_chain(case):
    steps = []
    fresh = 0
    for s in case["steps"]:
        if s[0] == "add":
            specs = []
            for prefix, t in s[1]:
                fresh += 1
                specs.append(("%s-n%d" % (prefix, fresh), t))   # never collides with MEMBER_POOL names
            steps.append(("add", specs))
        elif s[0] in ("remove", "partitions"):
            steps.append((s[0], s[1]))
        elif s[0] == "return":
            steps.append(("return",))
        else:
            steps.append(("same",))
    return run_chain(case["gen"], case["first"]["topics"], case["first"]["members"], steps)


# ---------------------------------------------------------------- enumerated deeper chains, identical subscriptions

_ID_STEPS = (["same"], ["add", [["a", "same"]]], ["add", [["zz", "same"]]], ["remove", [0]], ["remove", [-1]], ["return"])


def _identical_chain_cases(shard, nshards, max_parts, max_len):
    """All members subscribe to the same topics (the stickiness clauses always apply): topic t0 with
    1..max_parts partitions; optional second topic either subscribed by everybody (0..3 partitions)
    or by nobody (1..2 partitions); 1..3 initial members; every step sequence of length 2..max_len
    over {same, add a member sorting first, add a member sorting last, remove first, remove last}."""
    import itertools
    second = [None] + [("sub", k) for k in (0, 1, 2, 3)] + [("unsub", k) for k in (1, 2)]
    i = 0
    for n in range(1, max_parts + 1):
        for sec in second:
            layout = {"t0": n}
            sub = ["t0"]
            if sec is not None:
                layout["t1"] = sec[1]
                if sec[0] == "sub":
                    sub = ["t0", "t1"]
            for alt in ((False, True) if len(sub) > 1 else (False,)):
                # alt: odd-numbered and joining members list the same topics in the opposite order
                rsub = list(reversed(sub)) if alt else list(sub)
                id_steps = [st if st[0] != "add" else ["add", [[st[1][0][0], rsub]]] for st in _ID_STEPS]
                for nm in (1, 2, 3):
                    members = [["m%d" % j, rsub if j % 2 else list(sub)] for j in range(nm)]
                    for ln in range(2, max_len + 1):
                        for steps in itertools.product(id_steps, repeat=ln):
                            for gen in ac.GEN_MODES:
                                i += 1
                                if i % nshards == shard:
                                    yield {"gen": gen, "first": {"topics": layout, "members": members},
                                           "steps": [list(x) for x in steps]}


def campaigns(tier):
    thorough = tier == "thorough"
    if thorough:
        pairs = Campaign("pairs", "enum", execute=exec_pair, exhaustive=True,
                         cases=lambda s, n: _pair_cases(s, n, 4, ac.PART_CHOICES, 3), max_wall=1500)
    else:
        pairs = Campaign("pairs", "enum", execute=exec_pair, exhaustive=True,
                         cases=lambda s, n: _pair_cases(s, n, 3, (None, 1, 2, 3), 2))
    return [
        pairs,
        Campaign("identical_chains", "enum", execute=exec_chain, exhaustive=True,
                 cases=lambda s, n: _identical_chain_cases(s, n, 12 if thorough else 9, 4 if thorough else 3)),
        Campaign("chains", "hyp", execute=exec_chain, strategy=_strat_chain,
                 examples=60000 if thorough else 6000, shrink_wall=20.0),
    ]
