"""C13 - consumption starts at the committed offset, else per auto_offset_reset."""
import itertools

from vlib.core import Outcome
from vlib.runner import Campaign

from . import _consumer_sim as CS

ID = "C13"
LEVEL = "exploration"
RULE = ("Case = (committed offset: absent / inside / 0 in a log starting at 0 / below log start / beyond log end) x policy "
        "(earliest/latest/none) x isolation level (with an open transaction holding LSO < HW) x consumer "
        "kind (manual assign with group, subscribed group of one, group-less) x ListOffsets personality "
        "v0..v3 x faults on ListOffsets/OffsetFetch/FindCoordinator/Fetch x an optional seek() at a drawn "
        "instant after assignment; the configuration grid is enumerated, timings and faults are drawn. "
        "Non-trivial = the reset path was taken (no commit or out of range), or a seek landed before the "
        "position was established, or a lookup was retried. Distinct = distinct case value.")
ASSUMPTIONS = ["simulated cluster vlib/simkafka answers ListOffsets with LSO for read_committed and HW otherwise, "
               "OFFSET_OUT_OF_RANGE for fetch offsets outside [log start, log end]",
               "log is static until the first position is observed (appends are issued by the program afterwards)"]

SPEC_DATA = {"fmt": "v2", "kind": "data", "n": 3, "ts": [5]}


def expected_start(case, f0):
    """-> ('pos', offset) | ('error', name)"""
    cfg = case["cfg"]
    policy = cfg["auto_offset_reset"]
    iso = cfg["isolation"]
    end = f0["lso"] if iso == "read_committed" else f0["hw"]
    committed = (case.get("committed") or {}).get("t0:0")
    if cfg.get("group_id") is None:
        committed = None
    if committed is not None and f0["log_start"] <= committed <= f0["end"]:
        return ("pos", committed), False
    reset = True
    if policy == "earliest":
        return ("pos", f0["log_start"]), reset
    if policy == "latest":
        return ("pos", end), reset
    return ("error", "OffsetOutOfRangeError" if committed is not None else "NoOffsetForPartitionError"), reset


def evaluate(case, obs):
    out = Outcome()
    if obs.start_error is not None:
        out.label("start_failed:" + obs.start_error.split("(")[0])
        return out
    c = obs.cluster
    for e in c.harness_errors:
        raise RuntimeError("simulator error: %s" % e)
    if obs.deadlock:
        out.fail("start_position", "deadlock", {"deadlock": obs.deadlock})
        return out
    k = "t0:0"
    f0 = obs.initial
    (kind, val), reset = expected_start(case, f0)
    iso = case["cfg"]["isolation"]
    vis_final = obs.final[k]
    bound = vis_final["lso"] if iso == "read_committed" else vis_final["hw"]
    vis = [x for x in CS.visible_records(vis_final["decoded"], iso, bound) if x[0] >= vis_final["log_start"]]

    def next_visible(p):
        for x in vis:
            if x[0] >= p:
                return x[0]
        return None

    pos = val if kind == "pos" else None
    committed = (case.get("committed") or {}).get(k) if case["cfg"].get("group_id") else None
    # 'latest' means the end of the log at the moment the lookup was served: when faults delay the reset
    # past an append, the answer the simulator actually delivered is the expected position
    latest_answers = set()
    if reset and case["cfg"]["auto_offset_reset"] == "latest":
        for a in c.arrivals:
            if a.key == 2 and a.delivered and a.extra.get("answered"):
                want = {(t["topic"], p["partition"]): p["timestamp"] for t in a.body["topics"] for p in t["partitions"]}
                for t in a.extra["answered"]["topics"]:
                    for p in t["partitions"]:
                        if p["error"] == 0 and want.get((t["topic"], p["partition"])) == -1:
                            latest_answers.add(p["offsets"][0] if "offsets" in p else p["offset"])
    # an out-of-range committed offset is the position until the broker reports it out of range
    pre = committed if (committed is not None and reset) else None
    sought = False
    seek_before_position = False
    established = False
    first_data_call = True
    n_assigned = 0
    for ev in obs.events:
        op = ev["op"]
        if op == "assigned":
            n_assigned += 2 if ev.get("manual") else 1      # a second assign() call always replaces the first
            if n_assigned > 1 and k in ev["tps"]:
                # re-assignment: partition state is new, the start rule applies again (nothing was committed meanwhile)
                out.label("reassigned_same_partition")
                pos = val if kind == "pos" else None
                pre = committed if (committed is not None and reset) else None
                sought = False
                established = False
                first_data_call = True
            continue
        if op == "revoked":
            continue
        if op == "seek":
            pos = ev["offset"]
            sought = True
            pre = None
            if not established:
                seek_before_position = True
            if ev.get("position_after") is not None and ev["position_after"] != ev["offset"]:
                out.fail("seek_wins", "position_after_seek", {"event": CS._short(ev)})
        elif op == "position":
            p = ev.get("position")
            if ev.get("error"):
                if pos is not None:
                    out.fail("start_position", "position_raised", {"event": CS._short(ev), "expected": pos})
                continue
            if p is None:
                if pos is not None:
                    out.fail("start_position", "position_not_established", {"expected": pos, "sought": sought})
                continue
            established = True
            if pre is not None and p == pre and not sought:
                out.label("position_is_out_of_range_commit_before_fetch")
                continue
            if pos is None:
                out.fail("start_position", "position_without_offset", {"position": p, "expected_error": val})
                pos = p
                continue
            nv = next_visible(pos)
            hi = nv if nv is not None else max(vis_final["end"], pos)
            if not (pos <= p <= hi) and not sought and p in latest_answers and p >= pos:
                out.label("latest_reset_served_after_append")
                pos = p
                continue
            if not (pos <= p <= hi):
                out.fail("seek_wins" if sought else "start_position", "wrong_position",
                         {"position": p, "expected": pos, "sought": sought, "kind": kind, "reset": reset,
                          "committed": (case.get("committed") or {}).get(k), "log": [f0["log_start"], f0["lso"], f0["hw"], f0["end"]]})
                pos = p
        elif op in ("getone", "getmany"):
            if ev.get("error"):
                name = ev["error"][0]
                if pos is None and name == val:
                    out.label("raised_" + name)
                    pos = None
                elif ev.get("unexpected"):
                    out.fail("start_position", "api_raised:" + name, {"event": CS._short(ev)})
                else:
                    out.fail("seek_wins" if sought else "start_position", "unexpected_error:" + name,
                             {"event": CS._short(ev), "expected": [kind, val], "sought": sought})
                first_data_call = False
                continue
            recs = [r for r in ev.get("records", []) if r["tp"] == k]
            if pos is None:
                if recs:
                    out.fail("start_position", "records_instead_of_error", {"expected_error": val, "offsets": [r["offset"] for r in recs]})
                    pos = recs[-1]["offset"] + 1
                elif first_data_call and op == "getone" and not ev.get("drain"):
                    # the call timed out without raising: the error must surface on a data call
                    out.fail("start_position", "no_error_raised", {"expected_error": val, "event": CS._short(ev)})
                first_data_call = False
                continue
            first_data_call = False
            for r in recs:
                nv = next_visible(pos)
                if nv != r["offset"] and not established and not sought:
                    alt = [x for x in latest_answers if x >= pos and next_visible(x) == r["offset"]]
                    if alt:
                        out.label("latest_reset_served_after_append")
                        pos = min(alt)
                        nv = r["offset"]
                established = True
                if nv != r["offset"]:
                    out.fail("seek_wins" if sought else "start_position", "wrong_first_record",
                             {"got": r["offset"], "expected": nv, "model_pos": pos, "kind": kind, "reset": reset})
                pos = r["offset"] + 1
    # after the drain every visible record from the established position must have been delivered
    if pos is not None and next_visible(pos) is not None:
        out.fail("seek_wins" if sought else "start_position", "records_from_position_not_delivered",
                 {"model_pos": pos, "next_visible": next_visible(pos), "sought": sought,
                  "errors": [e["error"][0] for e in obs.events if e.get("error")][:5]})
    lookups = sum(1 for a in c.arrivals if a.key in (2, 9))
    retried = lookups > 2 or any(f for f in c.fault_log)
    out.nontrivial = bool(reset or seek_before_position or retried)
    out.label("policy_" + case["cfg"]["auto_offset_reset"], "iso_" + iso, "kind_" + case["kind"],
              "committed_" + case["committed_kind"], "list_offsets_v%d" % case["cluster"]["list_offsets_max"])
    if reset:
        out.label("reset_path")
    if seek_before_position:
        out.label("seek_before_position_established")
    if c.fault_log:
        out.label("fault_fired")
    out.info = {"expected": [kind, val], "events": [(e["op"], e.get("position"), [r["offset"] for r in e.get("records", [])], e.get("error", [None])[0]) for e in obs.events][:12]}
    return out


def execute(case):
    obs = CS.run(case)
    return evaluate(case, obs)


GRID = list(itertools.product(
    ["absent", "inside", "below", "beyond", "at_end", "zero"],
    ["earliest", "latest", "none"],
    ["read_uncommitted", "read_committed"],
    ["assign_group", "subscribe_group", "groupless_assign", "groupless_subscribe"],
    [3, 2, 1, 0],
))


def make_case(g, draw_seek, seek_delay, seek_frac, faults, lat, rng_seed, timing):
    committed_kind, policy, iso, kind, lo_max = g
    if iso == "read_committed" and lo_max < 2:
        lo_max = 2
    log_start = 0 if committed_kind == "zero" else 20      # "zero": a log starting at 0 with committed offset 0
    # 4 plain batches, then an open transaction (LSO < HW) and more data
    batches = [dict(SPEC_DATA), dict(SPEC_DATA), dict(SPEC_DATA, codec=1), dict(SPEC_DATA),
               {"fmt": "v2", "kind": "data", "n": 2, "pid": 5, "txn": True, "seq": 0, "ts": [6]},
               dict(SPEC_DATA)]
    end = log_start + 3 * 5 + 2          # 37
    committed = {"absent": None, "inside": 26, "below": log_start - 7, "beyond": end + 9, "at_end": end, "zero": 0}[committed_kind]
    cfg = {"mode": "assign" if "assign" in kind else "subscribe", "isolation": iso, "auto_offset_reset": policy,
           "group_id": "g" if kind in ("assign_group", "subscribe_group") else None,
           "request_timeout_ms": 400, "retry_backoff_ms": 20, "fetch_max_wait_ms": 50,
           "metadata_max_age_ms": 5000, "session_timeout_ms": 3000, "heartbeat_interval_ms": 300}
    if lo_max in (1, 3):
        # the policy name is matched case-insensitively: half of the grid spells it differently
        cfg["auto_offset_reset_as"] = policy.capitalize() if lo_max == 1 else policy.upper()
    ops = []
    if draw_seek:
        ops += [["sleep", seek_delay], ["seek", 0, seek_frac], ["sleep", timing]]
    ops += [["position", 0], ["getone", [0], 0.5], ["append", 0, dict(SPEC_DATA)], ["append", 0, {"kind": "commit", "pid": 5}],
            ["getone", [0], 0.5], ["position", 0]]
    return {"cfg": cfg, "kind": kind, "committed_kind": committed_kind,
            "cluster": {"nodes": 2, "fetch_max": 11 if lo_max >= 2 else 3, "list_offsets_max": lo_max},
            "logs": [{"topic": "t0", "nparts": 1, "partition": 0, "log_start": log_start, "batches": batches}],
            "committed": ({"t0:0": committed} if committed is not None else {}),
            "tasks": [ops], "faults": faults, "env": [], "lat": lat, "chunks": [0], "rng_seed": rng_seed,
            "drain_stop_idle": True}


def strategy():
    from hypothesis import strategies as st

    @st.composite
    def cases(draw):
        g = draw(st.sampled_from(GRID))
        faults = []
        for _ in range(draw(st.integers(0, 3))):
            sel = draw(st.sampled_from(["list_offsets", "list_offsets", "offset_fetch", "find_coordinator", "fetch"]))
            act = draw(st.sampled_from(["error", "drop", "no_reply", "delay"]))
            code = {"list_offsets": [6, 3, 5, 7], "offset_fetch": [14, 16], "find_coordinator": [15],
                    "fetch": [6, 3, 7, 78]}[sel]
            faults.append({"sel": sel, "k": draw(st.integers(0, 2)), "act": act, "code": draw(st.sampled_from(code)),
                           "delay": draw(st.sampled_from([0.05, 0.3, 1.0]))})
        return make_case(g, draw(st.booleans()), draw(st.sampled_from([0.0, 0.001, 0.003, 0.006, 0.01, 0.03, 0.1, 0.5])),
                         draw(st.sampled_from([0.0, 0.3, 0.6, 1.0])), faults,
                         draw(st.lists(st.sampled_from([0.0005, 0.001, 0.003, 0.01]), min_size=1, max_size=3)),
                         draw(st.integers(0, 2 ** 31)), draw(st.sampled_from([2.0, 3.0])))
    return cases()


def grid_cases(shard, nshards):
    i = 0
    for g in GRID:
        for seek in (None, 0.0, 0.004, 0.05):
            if i % nshards == shard:
                yield make_case(g, seek is not None, seek or 0.0, 0.6, [], [0.001], 7, 2.0)
            i += 1


RACE_TIMES = [0.0, 0.002, 0.004, 0.007, 0.012, 0.03, 0.08, 0.15, 0.25, 0.32, 0.45]


def race_cases(shard, nshards, stride=1):
    """A lookup (ListOffsets, OffsetFetch, or the first Fetch at an out-of-range committed offset) is delayed by
    0.3 s and a seek lands at a swept instant."""
    i = 0
    for gi, g in enumerate(GRID):
        for sel in ("list_offsets", "offset_fetch", "fetch"):
            if sel == "offset_fetch" and "group" not in g[3].split("_")[-1] and not g[3].endswith("group"):
                continue
            # a delayed first Fetch matters when it will be answered OFFSET_OUT_OF_RANGE (the committed offset is
            # outside the log): the stale error must not undo a seek that landed meanwhile
            if sel == "fetch" and not (g[0] in ("below", "beyond") and g[3].endswith("group")):
                continue
            for t in RACE_TIMES:
                i += 1
                if (i // 1) % stride:
                    continue
                if i % nshards == shard:
                    yield make_case(g, True, t, 0.6, [{"sel": sel, "k": 0, "act": "delay", "code": 0, "delay": 0.3}],
                                    [0.001], 11, 2.0)


LOOKUP_FAULTS = [("offset_fetch", 14), ("offset_fetch", 16), ("list_offsets", 6), ("list_offsets", 3), ("list_offsets", 5),
                 ("list_offsets", 7), ("find_coordinator", 15)]


def lookup_fault_cases(shard, nshards, acts=("error",)):
    """The first lookup of each kind is answered with each retriable error (or lost): the retry must still
    establish the position from the committed offset / the policy."""
    i = 0
    for g in GRID:
        grouped = g[3] in ("assign_group", "subscribe_group")
        for sel, code in LOOKUP_FAULTS:
            if sel != "list_offsets" and not grouped:
                continue
            for act in acts:
                i += 1
                if i % nshards == shard:
                    yield make_case(g, False, 0.0, 0.6, [{"sel": sel, "k": 0, "act": act, "code": code, "delay": 0.05}],
                                    [0.001], 13, 2.0)


def unknown_sibling_cases(shard, nshards):
    """Three partitions of one topic led by three brokers, so that their lookups share one OffsetFetch: the coordinator does not know
    partition 1 (UNKNOWN_TOPIC_OR_PARTITION, nothing committed for it) and lists it first; the judged partition 0 has
    its committed offset in the same reply and must start there whatever the policy."""
    i = 0
    for g in GRID:
        if g[3] not in ("assign_group", "subscribe_group") or g[0] == "absent" or g[1] == "none":
            continue
        for k in (0, 1):
            i += 1
            if i % nshards != shard:
                continue
            case = make_case(g, False, 0.0, 0.6, [{"sel": "offset_fetch", "k": k, "act": "unknown_partition", "code": 3,
                                                  "topic": "t0", "partition": 1}], [0.001], 19, 2.0)
            case["cluster"]["nodes"] = 3          # one leader each: the three position lookups start together
            case["logs"][0]["nparts"] = 3
            for p in (1, 2):
                case["logs"].append({"topic": "t0", "nparts": 3, "partition": p, "log_start": 0,
                                     "batches": [dict(SPEC_DATA), dict(SPEC_DATA)]})
            case["committed"]["t0:2"] = 2
            yield case


def evaluate_seek_to(case, obs):
    """seek_to_end() / seek_to_beginning() are explicit seeks: when the call reports success the position is a log
    end / log start that the broker reported in a reply delivered after the call was made - never the answer of a
    reset of the other kind that was in flight."""
    out = Outcome()
    if obs.start_error is not None:
        out.label("start_failed:" + obs.start_error.split("(")[0])
        return out
    c = obs.cluster
    for e in c.harness_errors:
        raise RuntimeError("simulator error: %s" % e)
    if obs.deadlock:
        out.fail("seek_wins", "deadlock", {"deadlock": obs.deadlock})
        return out
    raced = False
    for ev in obs.events:
        if ev["op"] not in ("seek_to_end", "seek_to_beginning") or "error" in ev:
            continue
        want_ts = -1 if ev["op"] == "seek_to_end" else -2
        answers, other = set(), set()
        for a in c.arrivals:
            if a.key != 2 or not a.extra.get("answered"):
                continue
            asked = {(t["topic"], p["partition"]): p["timestamp"] for t in a.body["topics"] for p in t["partitions"]}
            for t in a.extra["answered"]["topics"]:
                for p in t["partitions"]:
                    if p["error"] != 0 or "%s:%d" % (t["topic"], p["partition"]) != ev["tp"]:
                        continue
                    off = p["offsets"][0] if "offsets" in p else p["offset"]
                    if asked.get((t["topic"], p["partition"])) == want_ts and (a.t_end is None or a.t_end >= ev["t_call"] - 1e-9):
                        answers.add(off)           # a lookup of the same kind that was still unanswered will do as well
                    elif asked.get((t["topic"], p["partition"])) != want_ts and a.t < ev["t_call"] and \
                            (a.t_end is None or a.t_end > ev["t_call"]):
                        other.add(off)
                        raced = True
        if ev.get("returned") and ev.get("position_after") is not None and ev["position_after"] not in answers:
            out.fail("seek_wins", ev["op"] + "_position", {"event": CS._short(ev), "position": ev["position_after"],
                                                          "reported_after_the_call": sorted(answers),
                                                          "answer_of_the_reset_in_flight": sorted(other)})
    out.nontrivial = raced
    if raced:
        out.label("reset_of_other_kind_in_flight_at_seek_to")
    out.label("policy_" + case["cfg"]["auto_offset_reset"], "iso_" + case["cfg"]["isolation"])
    return out


def execute_seek_to(case):
    return evaluate_seek_to(case, CS.run(case))


def seek_to_cases(shard, nshards):
    """The first reset lookup (ListOffsets) is held back for 0.3 s; seek_to_end() / seek_to_beginning() is called at a
    swept instant: before the lookup is sent, while it is in flight, after it was answered."""
    i = 0
    for g in GRID:
        if g[0] not in ("absent", "below") or g[1] == "none":
            continue
        for op in ("seek_to_end", "seek_to_beginning"):
            for t in (0.0, 0.02, 0.05, 0.1, 0.2, 0.3, 0.45):
                i += 1
                if i % nshards != shard:
                    continue
                case = make_case(g, False, 0.0, 0.6, [{"sel": "list_offsets", "k": 0, "act": "delay", "code": 0, "delay": 0.3}],
                                 [0.001], 23, 2.0)
                case["tasks"] = [[["sleep", t], [op, 0], ["getone", [0], 0.3], ["position", 0]]]
                yield case


LATE_TIMES = [0.03, 0.06, 0.1, 0.15, 0.2, 0.25, 0.3, 0.34, 0.4, 0.5]


def late_leader_cases(shard, nshards, stride=1):
    """Two partitions; the judged one has no leader until a swept instant while the committed-offset lookup for
    the other one is held 0.3 s at the coordinator: its own lookup is registered while that request is in flight
    and must still be answered from the group's committed offset."""
    i = 0
    for g in GRID:
        if g[3] not in ("assign_group", "subscribe_group") or g[4] != 3:
            continue
        for t in LATE_TIMES:
            i += 1
            if i % stride or (i // stride) % nshards != shard:
                continue
            case = make_case(g, False, 0.0, 0.6, [{"sel": "offset_fetch", "k": 0, "act": "delay", "code": 0, "delay": 0.3}],
                             [0.001], 17, 2.0)
            case["logs"][0]["nparts"] = 2
            case["logs"].append({"topic": "t0", "nparts": 2, "partition": 1, "log_start": 0,
                                 "batches": [dict(SPEC_DATA), dict(SPEC_DATA)]})
            case["committed"]["t0:1"] = 2
            case["env"] = [{"at": 0.0, "ev": "leader_gone", "topic": "t0", "partition": 0, "back_at": t}]
            case["tasks"][0].insert(0, ["sleep", 0.9])
            yield case


def reassigned_cases(shard, nshards):
    """A group of one is sent through a second rebalance (a heartbeat answered REBALANCE_IN_PROGRESS) after it has
    consumed past the committed offset without committing: it gets the same partition back and must start it from
    the group's committed offset / the reset policy again."""
    i = 0
    for g in GRID:
        if g[3] != "subscribe_group" or g[4] != 3:
            continue
        for k_hb in (1, 3):
            for seek in (False, True):
                i += 1
                if i % nshards != shard:
                    continue
                case = make_case(g, seek, 0.0, 0.6, [{"sel": "heartbeat", "k": k_hb, "act": "error", "code": 27, "delay": 0.05}],
                                 [0.001], 19, 0.01)
                ops = case["tasks"][0]
                # position / two records, then idle across the rebalance, then the same again
                case["tasks"][0] = [o for o in ops if o[0] in ("sleep", "seek")] + \
                    [["position", 0], ["getone", [0], 0.5], ["getone", [0], 0.5], ["sleep", 2.0],
                     ["position", 0], ["getone", [0], 0.5], ["getone", [0], 0.5], ["position", 0]]
                case["record_assignments"] = True
                yield case


def manual_reassign_cases(shard, nshards):
    """assign() is called a second time (same partition) after the consumer has read from the first assignment: with or
    without a group the partition starts again from the committed offset / the reset policy."""
    i = 0
    for g in GRID:
        if g[3] not in ("assign_group", "groupless_assign") or g[4] != 3:
            continue
        for seek in (False, True):
            i += 1
            if i % nshards != shard:
                continue
            case = make_case(g, seek, 0.0, 0.6, [], [0.001], 23, 0.01)
            ops = case["tasks"][0]
            case["tasks"][0] = [o for o in ops if o[0] in ("sleep", "seek")] + \
                [["position", 0], ["getone", [0], 0.5], ["getone", [0], 0.5], ["sleep", 0.2], ["reassign"],
                 ["position", 0], ["getone", [0], 0.5], ["getone", [0], 0.5], ["position", 0]]
            yield case


def _run_with_initial(case):
    return execute(case)


def campaigns(tier):
    th = tier == "thorough"
    return [Campaign("grid", "enum", execute=execute, cases=grid_cases, exhaustive=True, setup=CS.setup),
            Campaign("seek_race", "enum", execute=execute, setup=CS.setup, exhaustive=th,
                     cases=(lambda s, n: race_cases(s, n, 1)) if th else (lambda s, n: race_cases(s, n, 3))),
            Campaign("lookup_fault", "enum", execute=execute, setup=CS.setup, exhaustive=True,
                     cases=(lambda s, n: lookup_fault_cases(s, n, ("error", "drop", "no_reply"))) if th
                     else (lambda s, n: lookup_fault_cases(s, n))),
            Campaign("late_leader", "enum", execute=execute, setup=CS.setup, exhaustive=True,
                     cases=(lambda s, n: late_leader_cases(s, n, 1)) if th else (lambda s, n: late_leader_cases(s, n, 2))),
            Campaign("unknown_sibling", "enum", execute=execute, setup=CS.setup, exhaustive=True, cases=unknown_sibling_cases),
            Campaign("seek_to_race", "enum", execute=execute_seek_to, setup=CS.setup, exhaustive=True, cases=seek_to_cases),
            Campaign("reassigned", "enum", execute=execute, setup=CS.setup, exhaustive=True, cases=reassigned_cases),
            Campaign("manual_reassign", "enum", execute=execute, setup=CS.setup, exhaustive=True, cases=manual_reassign_cases),
            Campaign("start_sim", "hyp", execute=execute, strategy=strategy,
                     examples=20000 if th else 1000, setup=CS.setup, max_wall=900 if th else 80, shrink_wall=30)]
