"""Simulated group coordinator: Kafka's classic group state machine."""
from . import cluster as C

EMPTY, PREPARING, COMPLETING, STABLE = "Empty", "PreparingRebalance", "CompletingRebalance", "Stable"


class Member:
    def __init__(self, member_id, client_id, instance_id):
        self.member_id = member_id
        self.client_id = client_id
        self.instance_id = instance_id
        self.session_timeout = 10.0
        self.rebalance_timeout = 10.0
        self.protocols = []          # [(name, metadata bytes)]
        self.assignment = b""
        self.last_seen = 0.0
        self.join_ctx = None
        self.sync_ctx = None
        self.joined_order = 0
        self.hb_handle = None


class Group:
    def __init__(self, gid):
        self.gid = gid
        self.state = EMPTY
        self.generation = 0
        self.protocol = None
        self.leader = None
        self.members = {}
        self.pending = set()
        self.offsets = {}            # (topic, partition) -> (offset, metadata)
        self.pending_txn = {}        # pid -> {(topic, partition): (offset, metadata)}
        self.rebalance_handle = None
        self.rebalance_deadline = None
        self.counter = 0
        self.generations = []        # history for the oracles
        self.events = []             # (t, event, member_id, detail)
        self.commit_log = []         # (t, member, generation, {(t,p): offset}, errors)


class GroupCoordinator:
    def __init__(self, cluster):
        self.c = cluster
        self.groups = {}
        self.initial_delay = 0.0

    def group(self, gid):
        g = self.groups.get(gid)
        if g is None:
            g = self.groups[gid] = Group(gid)
        return g

    def _ev(self, g, event, member=None, detail=None):
        g.events.append((self.c.loop._vtime, event, member, detail))

    def _is_coord(self, ctx):
        return ctx.node.node_id == self.c.group_coord_node

    def on_disconnect(self, conn):
        pass

    def move(self, to, keep_state=True):
        self.c.group_coord_node = to
        if keep_state:
            return
        for g in self.groups.values():
            self._ev(g, "state_lost")
            for m in list(g.members.values()):
                for ctx, key in ((m.join_ctx, 11), (m.sync_ctx, 14)):
                    if ctx is not None:
                        ctx.reply(self.c.error_reply(key, ctx.ver, ctx.body, C.NOT_COORDINATOR))
                if m.hb_handle:
                    m.hb_handle.cancel()
            g.members = {}
            g.pending = set()
            g.leader = None
            g.protocol = None
            g.state = EMPTY
            if g.rebalance_handle:
                g.rebalance_handle.cancel()
                g.rebalance_handle = None

    # ------------------------------------------------------------------ liveness
    def _touch(self, g, m):
        m.last_seen = self.c.loop._vtime
        if m.hb_handle:
            m.hb_handle.cancel()
        m.hb_handle = self.c.loop.call_at(m.last_seen + m.session_timeout, self._expire, g, m.member_id, m)

    def _expire(self, g, member_id, mobj):
        m = g.members.get(member_id)
        if m is None or m is not mobj:
            return
        if m.join_ctx is not None or m.sync_ctx is not None:
            # a member blocked in join/sync is kept alive by the coordinator
            m.hb_handle = self.c.loop.call_at(self.c.loop._vtime + m.session_timeout, self._expire, g, member_id, m)
            return
        self._ev(g, "session_expired", member_id)
        self._remove(g, member_id)

    def _remove(self, g, member_id):
        m = g.members.pop(member_id, None)
        if m is None:
            return
        if m.hb_handle:
            m.hb_handle.cancel()
        if g.leader == member_id:
            g.leader = None
        if g.state in (STABLE, COMPLETING):
            self._prepare(g)
        elif g.state == PREPARING:
            self._maybe_complete_join(g)

    # ------------------------------------------------------------------ rebalance
    def _prepare(self, g):
        if g.state == COMPLETING:
            # pending syncs learn that the group is rebalancing again
            for m in g.members.values():
                if m.sync_ctx is not None:
                    ctx, m.sync_ctx = m.sync_ctx, None
                    ctx.reply(self.c.error_reply(14, ctx.ver, ctx.body, C.REBALANCE_IN_PROGRESS))
        was_empty = g.state == EMPTY
        g.state = PREPARING
        self._ev(g, "prepare_rebalance")
        timeout = max([m.rebalance_timeout for m in g.members.values()] or [1.0])
        if was_empty:
            timeout = self.initial_delay
        if g.rebalance_handle:
            g.rebalance_handle.cancel()
        g.rebalance_deadline = self.c.loop._vtime + timeout
        g.rebalance_handle = self.c.loop.call_at(g.rebalance_deadline, self._join_timeout, g)
        if not was_empty:
            self._maybe_complete_join(g)

    def _join_timeout(self, g):
        g.rebalance_handle = None
        if g.state != PREPARING:
            return
        for mid in [mid for mid, m in g.members.items() if m.join_ctx is None]:
            self._ev(g, "removed_on_rebalance_timeout", mid)
            m = g.members.pop(mid)
            if m.hb_handle:
                m.hb_handle.cancel()
            if g.leader == mid:
                g.leader = None
        self._complete_join(g)

    def _maybe_complete_join(self, g):
        if g.state != PREPARING:
            return
        if g.members and all(m.join_ctx is not None for m in g.members.values()):
            # first join of an empty group waits for the initial delay timer
            if g.rebalance_handle is not None and g.generation == 0 and self.initial_delay > 0 \
                    and self.c.loop._vtime < g.rebalance_deadline and not g.generations:
                return
            if g.rebalance_handle:
                g.rebalance_handle.cancel()
                g.rebalance_handle = None
            self._complete_join(g)
        elif not g.members:
            if g.rebalance_handle:
                g.rebalance_handle.cancel()
                g.rebalance_handle = None
            self._complete_join(g)

    def _complete_join(self, g):
        g.generation += 1
        if not g.members:
            g.state = EMPTY
            g.protocol = None
            g.leader = None
            self._ev(g, "empty", None, g.generation)
            return
        # protocol selection: candidates supported by all, each member votes for its
        # most preferred candidate
        cands = None
        for m in g.members.values():
            names = {n for n, _ in m.protocols}
            cands = names if cands is None else cands & names
        votes = {}
        for m in g.members.values():
            for n, _ in m.protocols:
                if n in cands:
                    votes[n] = votes.get(n, 0) + 1
                    break
        g.protocol = sorted(votes, key=lambda n: (-votes[n], n))[0]
        if g.leader not in g.members:
            g.leader = sorted(g.members.values(), key=lambda m: m.joined_order)[0].member_id
        g.state = COMPLETING
        meta = {m.member_id: dict(m.protocols)[g.protocol] for m in g.members.values()}
        g.generations.append({"generation": g.generation, "protocol": g.protocol, "leader": g.leader,
                              "t": self.c.loop._vtime,
                              "members": {mid: {"metadata": meta[mid],
                                                "protocols": [n for n, _ in g.members[mid].protocols],
                                                "client_id": g.members[mid].client_id}
                                          for mid in g.members},
                              "assignments": None})
        self._ev(g, "join_complete", None, {"generation": g.generation, "members": sorted(g.members)})
        for m in g.members.values():
            ctx, m.join_ctx = m.join_ctx, None
            m.assignment = b""
            self._touch(g, m)
            if ctx is None:
                continue
            ctx.arrival.extra["join_result"] = (g.generation, m.member_id)
            members = []
            if m.member_id == g.leader:
                for o in sorted(g.members.values(), key=lambda x: x.member_id):
                    d = {"member_id": o.member_id, "metadata": meta[o.member_id]}
                    if ctx.ver >= 5:
                        d["group_instance_id"] = o.instance_id
                    members.append(d)
            r = {"error": 0, "generation": g.generation, "protocol": g.protocol, "leader": g.leader,
                 "member_id": m.member_id, "members": members}
            if ctx.ver >= 2:
                r["throttle"] = 0
            ctx.reply(r)

    # ------------------------------------------------------------------ JoinGroup
    def join(self, ctx):
        b = ctx.body
        ver = ctx.ver
        if not self._is_coord(ctx):
            ctx.reply(self.c.error_reply(11, ver, b, C.NOT_COORDINATOR))
            return
        g = self.group(b["group"])
        mid = b["member_id"]
        protos = [(p["name"], p["metadata"]) for p in b["protocols"]]
        inst = b.get("group_instance_id")
        if not protos:
            ctx.reply(self.c.error_reply(11, ver, b, C.INCONSISTENT_GROUP_PROTOCOL))
            return
        if g.members:
            common = None
            for m in g.members.values():
                if m.member_id == mid:
                    continue
                names = {n for n, _ in m.protocols}
                common = names if common is None else common & names
            if common is not None and not (common & {n for n, _ in protos}):
                ctx.reply(self.c.error_reply(11, ver, b, C.INCONSISTENT_GROUP_PROTOCOL))
                return
        if mid == "":
            g.counter += 1
            new_id = "%s-%s-%d" % (ctx.hdr.get("client_id") or "member", g.gid, g.counter)
            if ver >= 4 and inst is None:
                g.pending.add(new_id)
                self._ev(g, "member_id_required", new_id)
                r = self.c.error_reply(11, ver, b, C.MEMBER_ID_REQUIRED)
                r["member_id"] = new_id
                ctx.reply(r)
                return
            m = self._add_member(g, new_id, ctx, inst)
        elif mid in g.pending:
            g.pending.discard(mid)
            m = self._add_member(g, mid, ctx, inst)
        elif mid in g.members:
            m = g.members[mid]
        else:
            ctx.reply(self.c.error_reply(11, ver, b, C.UNKNOWN_MEMBER_ID))
            return
        changed = [n for n, _ in m.protocols] != [n for n, _ in protos] or \
            [x for _, x in m.protocols] != [x for _, x in protos]
        is_new = not m.protocols
        m.protocols = protos
        m.session_timeout = b["session_timeout"] / 1000.0
        m.rebalance_timeout = b.get("rebalance_timeout", b["session_timeout"]) / 1000.0
        ctx.arrival.extra["member"] = m.member_id
        self._ev(g, "join_request", m.member_id, {"protocols": [n for n, _ in protos], "state": g.state})
        if g.state == PREPARING:
            self._set_join_ctx(g, m, ctx)
            self._maybe_complete_join(g)
        elif g.state == COMPLETING:
            if not changed and not is_new:
                self._reply_current(g, m, ctx)
            else:
                self._set_join_ctx(g, m, ctx)
                self._prepare(g)
        elif g.state == STABLE:
            if is_new or changed or m.member_id == g.leader:
                self._set_join_ctx(g, m, ctx)
                self._prepare(g)
            else:
                self._reply_current(g, m, ctx)
        else:  # EMPTY
            self._set_join_ctx(g, m, ctx)
            self._prepare(g)
            self._maybe_complete_join(g)

    def _set_join_ctx(self, g, m, ctx):
        if m.join_ctx is not None and m.join_ctx is not ctx:
            pass   # an older JoinGroup of this member stays unanswered (its connection is gone)
        m.join_ctx = ctx
        self._touch(g, m)

    def _add_member(self, g, mid, ctx, inst):
        m = Member(mid, ctx.hdr.get("client_id"), inst)
        g.counter += 1
        m.joined_order = g.counter
        g.members[mid] = m
        self._ev(g, "member_added", mid)
        return m

    def _reply_current(self, g, m, ctx):
        self._touch(g, m)
        members = []
        if m.member_id == g.leader:
            for o in sorted(g.members.values(), key=lambda x: x.member_id):
                d = {"member_id": o.member_id, "metadata": dict(o.protocols).get(g.protocol, b"")}
                if ctx.ver >= 5:
                    d["group_instance_id"] = o.instance_id
                members.append(d)
        ctx.arrival.extra["join_result"] = (g.generation, m.member_id)
        r = {"error": 0, "generation": g.generation, "protocol": g.protocol, "leader": g.leader,
             "member_id": m.member_id, "members": members}
        if ctx.ver >= 2:
            r["throttle"] = 0
        ctx.reply(r)

    # ------------------------------------------------------------------ SyncGroup
    def sync(self, ctx):
        b = ctx.body
        ver = ctx.ver
        if not self._is_coord(ctx):
            ctx.reply(self.c.error_reply(14, ver, b, C.NOT_COORDINATOR))
            return
        g = self.group(b["group"])
        m = g.members.get(b["member_id"])
        if m is None:
            ctx.reply(self.c.error_reply(14, ver, b, C.UNKNOWN_MEMBER_ID))
            return
        if b["generation"] != g.generation:
            ctx.reply(self.c.error_reply(14, ver, b, C.ILLEGAL_GENERATION))
            return
        self._ev(g, "sync_request", m.member_id, {"state": g.state, "n_assignments": len(b["assignments"])})
        self._touch(g, m)
        if g.state == PREPARING:
            ctx.reply(self.c.error_reply(14, ver, b, C.REBALANCE_IN_PROGRESS))
        elif g.state == COMPLETING:
            m.sync_ctx = ctx
            if m.member_id == g.leader:
                given = {a["member_id"]: a["assignment"] for a in b["assignments"]}
                for o in g.members.values():
                    o.assignment = given.get(o.member_id, b"")
                g.state = STABLE
                g.generations[-1]["assignments"] = {o.member_id: o.assignment for o in g.members.values()}
                g.generations[-1]["t_sync"] = self.c.loop._vtime
                self._ev(g, "stable", None, g.generation)
                for o in g.members.values():
                    if o.sync_ctx is not None:
                        sctx, o.sync_ctx = o.sync_ctx, None
                        self._touch(g, o)
                        self._sync_reply(sctx, o.assignment)
        elif g.state == STABLE:
            self._sync_reply(ctx, m.assignment)
        else:
            ctx.reply(self.c.error_reply(14, ver, b, C.UNKNOWN_MEMBER_ID))

    def _sync_reply(self, ctx, assignment):
        ctx.arrival.extra["sync_assignment"] = assignment
        r = {"error": 0, "assignment": assignment}
        if ctx.ver >= 1:
            r["throttle"] = 0
        ctx.reply(r)

    # ------------------------------------------------------------------ Heartbeat / Leave
    def heartbeat(self, ctx):
        b = ctx.body
        if not self._is_coord(ctx):
            ctx.reply(self.c.error_reply(12, ctx.ver, b, C.NOT_COORDINATOR))
            return
        g = self.group(b["group"])
        m = g.members.get(b["member_id"])
        if m is None:
            err = C.UNKNOWN_MEMBER_ID
        elif b["generation"] != g.generation:
            err = C.ILLEGAL_GENERATION
        elif g.state == PREPARING:
            self._touch(g, m)
            err = C.REBALANCE_IN_PROGRESS
        elif g.state in (STABLE, COMPLETING):
            self._touch(g, m)
            err = 0
        else:
            err = C.UNKNOWN_MEMBER_ID
        ctx.arrival.extra["hb"] = (b["member_id"], b["generation"], err, g.state)
        ctx.reply(self.c.error_reply(12, ctx.ver, b, err))

    def leave(self, ctx):
        b = ctx.body
        if not self._is_coord(ctx):
            ctx.reply(self.c.error_reply(13, ctx.ver, b, C.NOT_COORDINATOR))
            return
        g = self.group(b["group"])
        mid = b["member_id"]
        if mid in g.pending:
            g.pending.discard(mid)
            err = 0
        elif mid not in g.members:
            err = C.UNKNOWN_MEMBER_ID
        else:
            self._ev(g, "leave", mid)
            self._remove(g, mid)
            err = 0
        ctx.reply(self.c.error_reply(13, ctx.ver, b, err))

    # ------------------------------------------------------------------ offsets
    def offset_commit(self, ctx):
        b = ctx.body
        ver = ctx.ver
        if not self._is_coord(ctx):
            ctx.reply(self.c.error_reply(8, ver, b, C.NOT_COORDINATOR))
            return
        g = self.group(b["group"])
        gen = b.get("generation", -1)
        mid = b.get("member_id", "")
        err = 0
        if gen < 0 and mid == "":
            if g.state != EMPTY:
                err = C.UNKNOWN_MEMBER_ID
        else:
            m = g.members.get(mid)
            if m is None:
                err = C.UNKNOWN_MEMBER_ID
            elif gen != g.generation:
                err = C.ILLEGAL_GENERATION
            elif g.state == COMPLETING:
                err = C.REBALANCE_IN_PROGRESS
            else:
                self._touch(g, m)
        offs = {}
        for t in b["topics"]:
            for p in t["partitions"]:
                offs[(t["topic"], p["partition"])] = (p["offset"], p.get("metadata"))
        g.commit_log.append((self.c.loop._vtime, mid, gen, {k: v[0] for k, v in offs.items()}, err,
                             ctx.arrival.seq))
        if not err:
            g.offsets.update(offs)
        ctx.arrival.extra["commit"] = {"member": mid, "generation": gen, "error": err,
                                       "offsets": {"%s:%d" % k: v[0] for k, v in offs.items()}}
        ctx.reply(self.c.error_reply(8, ver, b, err))

    def offset_fetch(self, ctx):
        b = ctx.body
        ver = ctx.ver
        if not self._is_coord(ctx):
            ctx.reply(self.c.error_reply(9, ver, b, C.NOT_COORDINATOR))
            return
        g = self.group(b["group"])
        topics = b["topics"]
        if topics is None:
            by = {}
            for (t, p) in sorted(g.offsets):
                by.setdefault(t, []).append(p)
            topics = [{"topic": t, "partitions": ps} for t, ps in by.items()]
        out = []
        given = {}
        for t in topics:
            ps = []
            for p in t["partitions"]:
                o = g.offsets.get((t["topic"], p))
                if o is None:
                    ps.append({"partition": p, "offset": -1, "metadata": "", "error": 0})
                    given["%s:%d" % (t["topic"], p)] = -1
                else:
                    ps.append({"partition": p, "offset": o[0], "metadata": o[1] or "", "error": 0})
                    given["%s:%d" % (t["topic"], p)] = o[0]
            unk = ctx.arrival.extra.get("unknown_partition")
            if unk and unk[0] == t["topic"] and any(x["partition"] == unk[1] for x in ps):
                ps = ([{"partition": unk[1], "offset": -1, "metadata": "", "error": 3}] +
                      [x for x in ps if x["partition"] != unk[1]])
                given["%s:%d" % unk] = -1
            out.append({"topic": t["topic"], "partitions": ps})
        r = {"topics": out}
        if ver >= 2:
            r["error"] = 0
        if ver >= 3:
            r["throttle"] = 0
        ctx.arrival.extra["offsets_given"] = given
        ctx.reply(r)

    def txn_offset_commit(self, ctx):
        b = ctx.body
        if not self._is_coord(ctx):
            ctx.reply(self.c.error_reply(28, ctx.ver, b, C.NOT_COORDINATOR))
            return
        # fenced producers are rejected
        st = self.c.txn.txns.get(b["transactional_id"])
        err = 0
        if st is None or st.pid != b["producer_id"]:
            err = C.INVALID_PRODUCER_ID_MAPPING
        elif st.epoch != b["producer_epoch"]:
            err = C.INVALID_PRODUCER_EPOCH
        if not err:
            g = self.group(b["group"])
            pend = g.pending_txn.setdefault(b["producer_id"], {})
            for t in b["topics"]:
                for p in t["partitions"]:
                    pend[(t["topic"], p["partition"])] = (p["offset"], p.get("metadata"))
            ctx.arrival.extra["txn_index"] = st.txn_index
        ctx.reply(self.c.error_reply(28, ctx.ver, b, err))

    def end_txn_offsets(self, gid, pid, committed):
        g = self.group(gid)
        pend = g.pending_txn.pop(pid, None)
        if pend and committed:
            g.offsets.update(pend)


C.register(11, lambda c, ctx: c.groups.join(ctx))
C.register(14, lambda c, ctx: c.groups.sync(ctx))
C.register(12, lambda c, ctx: c.groups.heartbeat(ctx))
C.register(13, lambda c, ctx: c.groups.leave(ctx))
C.register(8, lambda c, ctx: c.groups.offset_commit(ctx))
C.register(9, lambda c, ctx: c.groups.offset_fetch(ctx))
C.register(28, lambda c, ctx: c.groups.txn_offset_commit(ctx))
