"""C14 - assignors give each subscribed partition exactly one subscribed owner, balanced.

Each case is one assignor name plus one or more rebalance rounds of one consumer group
(layout = {topic: partition count or None for "no metadata"}, ordered member list with
subscriptions).  Range and round-robin are stateless, so they get one round; the sticky
assignor additionally gets earlier rounds whose results travel to the checked round as
real user data (see props/_assign_common.py for the plumbing).  Every round's result is
checked: a result produced from user data is as much an in-domain output as a fresh one.

Oracle clauses (predicates over the case and the decoded result only):
  exact_cover    every partition of every subscribed topic with metadata is assigned exactly
                 once, to a subscriber; nothing else is assigned; every member has an entry;
                 the assignor does not raise
  rr_balance     round-robin, identical subscriptions: loads within one
  range_balance  range: per topic, among that topic's subscribers: loads within one
  sticky_kip54   no member a and partition p owned by b with a subscribed to p's topic and
                 load(b) >= load(a) + 2
"""
from vlib.core import Outcome
from vlib.runner import Campaign

from props import _assign_common as ac

ID = "C14"
LEVEL = "exploration"
RULE = ("Cases: (assignor, generation mode, list of rebalance rounds; a round = partition count or "
        "'no metadata' per topic + ordered members with non-empty subscriptions). Enumerated campaigns: "
        "every input of 1..4 members x 1..3 topics x {no metadata, 0..4 partitions} per topic x every "
        "non-empty subscription per member, for each of range/roundrobin/sticky (quick: 1..3 members "
        "completely + every 8th 4-member input). Random campaigns: up to 12 members, 8 topics, 12 "
        "partitions, member order and names varied; sticky with 0..3 earlier rounds (fresh or perturbed "
        "membership/subscriptions/partition counts) feeding user data, generation default(-1) or positive. "
        "Non-trivial = the checked round has two members with overlapping but different subscriptions, or a "
        "subscribed topic without metadata. Distinct = distinct case value.")
ASSUMPTIONS = ["cluster is a stub exposing partitions_for_topic()/topics() with ClusterMetadata's semantics "
               "(no-metadata topic: None, and not listed by topics()); partition ids are 0..n-1",
               "each simulated member's sticky class attributes are swapped in/out by the harness "
               "(one class = one member in production)",
               "PYTHONHASHSEED=0: the sticky assignor iterates sets of TopicPartition, its result can depend "
               "on string hashing; only this hash seed is explored"]


def _label(out, aname, layout, members, rounds_before, gen):
    sc = ac.subs_class(members)
    nometa = ac.subscribed_without_metadata(layout, members)
    out.label(aname, "%s:members=%d" % (aname, len(members)), "subs:" + sc)
    if nometa:
        out.label("subscribed_topic_without_metadata")
    subscribed = {t for _, ts in members for t in ts}
    if any(n is not None and t not in subscribed for t, n in layout.items()):
        out.label("cluster_topic_nobody_subscribes")
    if any(n == 0 for t, n in layout.items() if t in subscribed):
        out.label("subscribed_topic_zero_partitions")
    if aname == "sticky":
        out.label("sticky:prev_rounds=%d" % rounds_before)
        if rounds_before:
            out.label("sticky:gen=" + gen)
    return sc == "overlap_different" or bool(nometa)


def run_rounds(aname, gen, rounds):
    out = Outcome()
    g = ac.Group(aname, gen)
    last = len(rounds) - 1
    for k, (layout, members) in enumerate(rounds):
        members = ac.norm_members(members)
        prefix = ""   # every round is an in-domain input; the round index is in the detail
        params = {"assignor": aname, "gen": gen, "with_user_data": k > 0}
        if k == last:
            out.nontrivial = _label(out, aname, layout, members, k, gen)
        try:
            try:
                result = g.rebalance(layout, members)
            finally:
                # a partition claimed by two members under different generations (only possible when
                # generations are populated and a member returns with a stale claim)
                params["multi_gen_claims"] = g.multi_gen_claims
                if k == last and g.multi_gen_claims:
                    out.label("sticky:multi_gen_claims")
        except ac.AssignorRaised as e:
            out.fail("exact_cover", "%sraises:%s" % (prefix, e.exc_type),
                     {"assignor": aname, "stage": e.stage, "error": e.exc_repr, "layout": layout,
                      "members": members, "round": k}, **params)
            return out
        owner = ac.validity(out, aname, layout, members, result, prefix=prefix, **params)
        if owner is None:
            return out
        if k == last:
            out.info = {"loads": ac.result_summary(result)}
    return out


def exec_bounded(case):
    layout, members = ac.expand_bounded(case["topics"], case["subs"])
    return run_rounds(case["a"], "default", [(layout, members)])


def exec_random(case):
    rounds = [(r["topics"], r["members"]) for r in case["rounds"]]
    return run_rounds(case["a"], case["gen"], rounds)


def _bounded_cases(shard, nshards, min_members, max_members, stride=1):
    i = 0
    for topics, subs in ac.bounded_inputs(max_members, min_members=min_members):
        i += 1
        if stride > 1 and i % stride:
            continue
        for a in ac.ASSIGNORS:
            if (i // stride) % nshards == shard:
                yield {"a": a, "topics": list(topics), "subs": [list(s) for s in subs]}


# ---------------------------------------------------------------- random strategies

TOPIC_POOL = ["t0", "t1", "t10", "t2", "a", "B", "zz", "t-3"]
MEMBER_POOL = ["m0", "m1", "m10", "m2", "c-a", "c-b", "C", "z", "consumer-7", "0", "aa", "m"]


def _st_round(draw, max_members, max_topics, max_parts, prev=None):
    from hypothesis import strategies as st
    count = st.one_of(st.none(), st.integers(0, max_parts), st.integers(0, min(3, max_parts)))
    pool = TOPIC_POOL[:max_topics]
    if prev is not None and draw(st.booleans()):
        # perturb the previous round: drop/add members, change some subscriptions and counts
        layout = dict(prev["topics"])
        for t in draw(st.lists(st.sampled_from(pool), max_size=3, unique=True)):
            layout[t] = draw(count)
        members = [[m, list(ts)] for m, ts in prev["members"]]
        drop = draw(st.sets(st.integers(0, len(members) - 1), max_size=len(members) - 1)) if len(members) > 1 else ()
        members = [mt for i, mt in enumerate(members) if i not in drop]
        for mt in members:
            if draw(st.integers(0, 5)) == 0:
                mt[1] = draw(st.lists(st.sampled_from(pool), min_size=1, max_size=len(pool), unique=True))
        # members that sat out one or more rounds come back with the (stale) state they left with
        gone = [m for m in prev.get("past", {}) if m not in {x[0] for x in members}]
        if gone and len(members) < max_members and draw(st.integers(0, 2)) > 0:
            for m in draw(st.lists(st.sampled_from(gone), min_size=1, max_size=min(2, max_members - len(members)), unique=True)):
                ts = list(prev["past"][m]) if draw(st.integers(0, 3)) > 0 else draw(
                    st.lists(st.sampled_from(pool), min_size=1, max_size=len(pool), unique=True))
                members.insert(draw(st.integers(0, len(members))), [m, ts])
        free = [m for m in MEMBER_POOL if m not in {x[0] for x in members}]
        room = max_members - len(members)
        if free and room > 0:
            for m in draw(st.lists(st.sampled_from(free), max_size=min(2, room), unique=True)):
                same = members and draw(st.booleans())
                ts = list(members[0][1]) if same else draw(
                    st.lists(st.sampled_from(pool), min_size=1, max_size=len(pool), unique=True))
                members.insert(draw(st.integers(0, len(members))), [m, ts])
        return {"topics": layout, "members": members}
    ntop = draw(st.integers(1, max_topics))
    topics = draw(st.lists(st.sampled_from(pool), min_size=ntop, max_size=ntop, unique=True))
    layout = {t: draw(count) for t in topics}
    nm = draw(st.integers(1, max_members))
    names = draw(st.lists(st.sampled_from(MEMBER_POOL), min_size=nm, max_size=nm, unique=True))
    sub = st.lists(st.sampled_from(pool), min_size=1, max_size=len(pool), unique=True)
    mode = draw(st.sampled_from(["identical", "free", "free", "known_topics"]))
    if mode == "identical":
        s = draw(sub)
        members = [[m, list(s)] for m in names]
    elif mode == "known_topics":
        sk = st.lists(st.sampled_from(topics), min_size=1, max_size=len(topics), unique=True)
        members = [[m, draw(sk)] for m in names]
    else:
        members = [[m, draw(sub)] for m in names]
    return {"topics": layout, "members": members}


def _strat(assignors, max_prev):
    from hypothesis import strategies as st

    @st.composite
    def case(draw):
        a = draw(st.sampled_from(assignors))
        size = draw(st.sampled_from([(4, 3, 4), (6, 4, 6), (12, 8, 12), (12, 8, 12)]))
        nprev = draw(st.integers(0, max_prev)) if a == "sticky" else 0
        rounds = []
        prev = None
        past = {}
        for _ in range(nprev + 1):
            if prev is not None:
                prev = dict(prev, past=dict(past))
            prev = _st_round(draw, *size, prev=prev)
            prev.pop("past", None)
            for m, ts in prev["members"]:
                past[m] = list(ts)
            rounds.append(prev)
        gen = draw(st.sampled_from(list(ac.GEN_MODES) + ["positive"])) if nprev else "default"
        return {"a": a, "gen": gen, "rounds": rounds}

    return case()


def _strat_absentee():
    """Sticky histories in which members sit out rounds and come back with stale claims: the same partition is then
    claimed by several members under different generations (the prev-generation hand-back paths of KIP-341)."""
    from hypothesis import strategies as st

    @st.composite
    def case(draw):
        ntop = draw(st.integers(1, 3))
        pool = TOPIC_POOL[:ntop]
        layout = {t: draw(st.integers(1, 5)) for t in pool}
        nm = draw(st.integers(2, 5))
        names = MEMBER_POOL[:nm]
        mode = draw(st.sampled_from(["identical", "free", "free"]))
        sub = st.lists(st.sampled_from(pool), min_size=1, max_size=len(pool), unique=True)
        base = draw(sub)
        subs = {m: (list(base) if mode == "identical" else draw(sub)) for m in names}
        rounds = []
        for r in range(draw(st.integers(2, 5))):
            present = [m for m in names if r == 0 or draw(st.integers(0, 9)) >= 3]
            if not present:
                present = [names[draw(st.integers(0, nm - 1))]]
            if r and draw(st.integers(0, 4)) == 0:
                t = draw(st.sampled_from(pool))
                layout = dict(layout)
                layout[t] = draw(st.integers(1, 6))
            if r and mode != "identical" and draw(st.integers(0, 3)) == 0:
                subs = dict(subs)
                subs[draw(st.sampled_from(names))] = draw(sub)
            rounds.append({"topics": dict(layout), "members": [[m, list(subs[m])] for m in present]})
        return {"a": "sticky", "gen": "positive", "rounds": rounds}

    return case()


def campaigns(tier):
    thorough = tier == "thorough"
    cs = []
    if thorough:
        cs.append(Campaign("bounded", "enum", execute=exec_bounded, exhaustive=True,
                           cases=lambda s, n: _bounded_cases(s, n, 1, 4)))
    else:
        cs.append(Campaign("bounded", "enum", execute=exec_bounded, exhaustive=True,
                           cases=lambda s, n: _bounded_cases(s, n, 1, 3)))
        cs.append(Campaign("bounded_m4_every8th", "enum", execute=exec_bounded, exhaustive=False,
                           cases=lambda s, n: _bounded_cases(s, n, 4, 4, stride=8)))
    cs.append(Campaign("random_stateless", "hyp", execute=exec_random,
                       strategy=lambda: _strat(["range", "roundrobin"], 0),
                       examples=40000 if thorough else 4000, shrink_wall=20.0))
    cs.append(Campaign("random_sticky", "hyp", execute=exec_random,
                       strategy=lambda: _strat(["sticky"], 4),
                       examples=60000 if thorough else 8000, shrink_wall=20.0))
    cs.append(Campaign("sticky_absentee", "hyp", execute=exec_random, strategy=_strat_absentee,
                       examples=60000 if thorough else 6000, shrink_wall=20.0))
    return cs
