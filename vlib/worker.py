"""python -m vlib.worker <prop_module> <tier> <widx> <nworkers> <seed> <outdir>"""
import os
import sys


def main():
    prop_mod, tier, widx, nworkers, seed, outdir = sys.argv[1:7]
    from vlib import stage
    stage.activate(os.environ["VERIF_STAGE"])
    from vlib import runner
    runner.worker_process(prop_mod, tier, int(widx), int(nworkers), int(seed), outdir)
    sys.stdout.flush()
    os._exit(0)


if __name__ == "__main__":
    main()
