"""C01 - per-partition produce order; no loss, no duplication under retries."""
from vlib.core import Outcome
from vlib.runner import Campaign
from vlib.simkafka import cluster as SC

from . import _producer_sim as PS

ID = "C01"
LEVEL = "exploration"
RULE = ("Case = producer config x cluster x per-task send programs x fault plan (retriable faults on "
        "produce/metadata/InitProducerId, leader moves, broker outages) x latency/chunk streams x "
        "starting sequence; a real AIOKafkaProducer runs it on the simulated cluster in virtual time. "
        "Non-trivial = a fault fired on a ProduceRequest carrying records and a batch was re-sent, or "
        ">=2 tasks interleaved >=2 batches on one partition, or the sequence wrapped. Distinct = "
        "distinct case value (fingerprint of the canonical JSON).")
ASSUMPTIONS = ["simulated cluster vlib/simkafka (Kafka idempotence rules, retriable faults only)",
               "reference codecs vlib/refproto + vlib/refrecords decode every request and the final logs",
               "virtual-time loop: schedules explored are those reachable by perturbing I/O timing"]


def evaluate(case, obs):
    out = Outcome()
    if getattr(obs, "stop_raised", None):
        # an exception escaping producer.stop() (the sender task died of a non-Kafka error): accepted records are left
        # behind; reported under this property's own clause names
        out.fail("unexpected_exception", "stop_raised:" + obs.stop_raised[0], {"error": obs.stop_raised[1]})
    if obs.start_error is not None:
        out.label("start_failed")
        return out
    c = obs.cluster
    idem = case["cfg"]["idempotent"]
    acks0 = case["cfg"].get("acks") == 0
    for e in c.harness_errors:
        raise RuntimeError("simulator error: %s" % e)
    if obs.deadlock:
        out.fail("no_deadlock", "producer", {"deadlock": obs.deadlock, "unresolved": obs.unresolved_after_bound})
    if obs.tasks_hung:
        out.label("application_call_blocked_after_quiet")   # C19's subject
    wrapped = bool(case.get("start_seq"))
    params = {"wrapped": wrapped}
    accepted = {}
    for s in obs.sends:
        if s.get("accepted"):
            accepted[tuple(s["id"])] = s
    logs = PS.log_records(obs)
    # ---- no_invention / task_order / idem_once
    seen_where = {}
    for tpk, rows in logs.items():
        first_seen = {}
        for off, vid, r, b in rows:
            if vid is None or vid not in accepted:
                out.fail("no_invention", "unknown_record", {"tp": tpk, "offset": off, "value": r["value"]}, **params)
                continue
            s = accepted[vid]
            seen_where.setdefault(vid, []).append((tpk, off))
            first_seen.setdefault(vid, off)
        # order per task
        per_task = {}
        for vid, off in first_seen.items():
            per_task.setdefault(vid[0], []).append((vid[1], off))
        for ti, lst in per_task.items():
            lst.sort()
            offs = [o for _, o in lst]
            if offs != sorted(offs):
                out.fail("task_order", "first_occurrences_reordered", {"tp": tpk, "task": ti, "idx_offset": lst[:30]}, **params)
    for vid, places in seen_where.items():
        s = accepted[vid]
        tps = {p[0] for p in places}
        if len(tps) > 1:
            out.fail("no_invention", "record_in_two_partitions", {"id": vid, "places": places}, **params)
        if s["req_partition"] is not None and list(tps)[0] != "%s:%d" % (s["topic"], s["req_partition"]):
            out.fail("no_invention", "wrong_partition", {"id": vid, "places": places, "want": s["req_partition"]}, **params)
        if idem and len(places) > 1:
            out.fail("idem_once", "duplicate", {"id": vid, "places": places}, **params)
    for vid, s in accepted.items():
        oc = s.get("outcome")
        if oc and oc[0] == "ok" and not acks0:
            n = len(seen_where.get(vid, []))
            if n == 0:
                out.fail("idem_once" if idem else "acked_present", "acknowledged_but_absent", {"id": vid, "outcome": oc}, **params)
    # keyed sends: partition chosen like the Java client (feeds C17 end to end)
    from .c17 import java_partition
    nparts = {t["name"]: t["partitions"] for t in case["cluster"]["topics"]}
    for vid, s in accepted.items():
        if s["req_partition"] is None and s["key"] is not None and vid in seen_where:
            want = "%s:%d" % (s["topic"], java_partition(s["key"], nparts[s["topic"]]))
            if seen_where[vid][0][0] != want:
                out.fail("keyed_partition", "not_java", {"id": vid, "key": s["key"], "got": seen_where[vid][0][0], "want": want}, **params)
            out.label("keyed_send")
    # ---- dup_whole_batches (non idempotent)
    if not idem:
        for tpk, (pl, batches) in obs.final_logs.items():
            sets = []
            for b in batches:
                ids = [PS.value_id(r["value"] or b"") for r in b["records"]]
                sets.append(ids)
            for i in range(len(sets)):
                for j in range(i + 1, len(sets)):
                    a, bb = sets[i], sets[j]
                    if a != bb and set(a) & set(bb):
                        out.fail("dup_whole_batches", "partial_overlap", {"tp": tpk, "a": a, "b": bb}, **params)
    # ---- one_in_flight / seq_chain over the arrival log
    per_tp = {}
    resent = False
    fault_on_data = False
    for a in PS.produce_arrivals(obs):
        for t in a.body["topics"]:
            for p in t["partitions"]:
                per_tp.setdefault("%s:%d" % (t["name"], p["index"]), []).append(a)
        if a.fault is not None and any(p["records"] for t in a.body["topics"] for p in t["partitions"]):
            fault_on_data = True
    interleaved = False
    for tpk, arrs in per_tp.items():
        arrs.sort(key=lambda a: (a.t_written, a.seq))
        if not acks0:
            for x, y in zip(arrs, arrs[1:]):
                if x.t_end is None or y.t_written < x.t_end - 1e-9:
                    out.fail("one_in_flight", "overlap", {"tp": tpk, "first": [x.seq, x.t_written, x.t_end],
                                                         "second": [y.seq, y.t_written, y.t_end]}, **params)
                    break
        # batches of this partition in write order
        seq_state = {}
        batches_seen = []
        for a in arrs:
            for b in a.extra.get("batches", []):
                if "%s:%d" % tuple(b["tp"]) != tpk:
                    continue
                ids = [PS.value_id(v or b"") for v in b["values"]]
                batches_seen.append(ids)
                if b["pid"] < 0:
                    if idem:
                        out.fail("seq_chain", "no_producer_id", {"tp": tpk, "arrival": a.seq}, **params)
                    continue
                key = (b["pid"], b["epoch"])
                bs, cnt = b["base_seq"], b["count"]
                if not (0 <= bs <= PS.SEQ_MAX):
                    out.fail("seq_chain", "out_of_range", {"tp": tpk, "base_seq": bs, "count": cnt, "arrival": a.seq},
                             negative_seq=bs < 0, **params)
                st = seq_state.get(key)
                if st is None:
                    start = (case.get("start_seq") or {}).get(tpk, 0) if obs.wrap_injected else 0
                    if bs != start:
                        out.fail("seq_chain", "bad_first_sequence", {"tp": tpk, "base_seq": bs, "want": start}, **params)
                    seq_state[key] = {"last": (bs, cnt, ids), "all": [(bs, cnt, ids)]}
                    continue
                lb, lc, lids = st["last"]
                if (bs, cnt, ids) == (lb, lc, lids):
                    resent = True
                    continue
                want = SC.seq_add(lb, lc)
                if bs == want:
                    if set(ids) & {i for (_, _, x) in st["all"] for i in x}:
                        out.fail("seq_chain", "records_resent_under_new_sequence", {"tp": tpk, "ids": ids}, **params)
                    st["last"] = (bs, cnt, ids)
                    st["all"].append((bs, cnt, ids))
                elif any((bs, cnt, ids) == x for x in st["all"]):
                    out.fail("seq_chain", "old_batch_resent_after_newer", {"tp": tpk, "base_seq": bs}, **params)
                elif any(bs == x[0] for x in st["all"]):
                    out.fail("seq_chain", "reused_sequence", {"tp": tpk, "base_seq": bs, "count": cnt, "ids": ids}, **params)
                else:
                    out.fail("seq_chain", "gap", {"tp": tpk, "base_seq": bs, "want": want, "prev": [lb, lc]},
                             negative_seq=bs < 0, **params)
                    st["last"] = (bs, cnt, ids)
                    st["all"].append((bs, cnt, ids))
        if not idem:
            for i, x in enumerate(batches_seen):
                if x in batches_seen[:i]:
                    resent = True
        tasks_in = [{i[0] for i in ids if i} for ids in batches_seen]
        if len(batches_seen) >= 2 and len(set().union(*tasks_in)) >= 2:
            interleaved = True
    did_wrap = obs.wrap_injected and any(
        b["base_seq"] + b["count"] > PS.SEQ_MAX or b["base_seq"] < 0
        for a in PS.produce_arrivals(obs) for b in a.extra.get("batches", []))
    # ---- sender must survive retriable faults when idempotent
    if idem and obs.sender_exc:
        out.fail("idem_once", "sender_died", {"exc": obs.sender_exc}, **params)
    out.nontrivial = bool((fault_on_data and resent) or interleaved or did_wrap)
    if fault_on_data:
        out.label("fault_on_produce")
    if resent:
        out.label("batch_resent")
    if interleaved:
        out.label("tasks_interleaved_on_partition")
    if did_wrap:
        out.label("sequence_wrapped")
    if obs.skipped_wrap:
        out.label("wrap_skipped_attribute_missing")
    out.label("idempotent" if idem else "plain", "nodes_%d" % case["cluster"]["nodes"])
    if c.fault_log:
        out.label("fault_fired")
    out.info = {"sends": len(obs.sends), "accepted": len(accepted), "produce_requests": len(PS.produce_arrivals(obs)),
                "faults_fired": len(c.fault_log), "vtime": round(obs.vtime, 3)}
    return out


def execute(case):
    obs = PS.run(case)
    return evaluate(case, obs)


def evaluate_txn(case, obs):
    """Transactional producers are idempotent producers: the sequence chain of a (producer id, epoch) runs on
    across its transactions, and every acknowledged record is appended exactly once (committed or aborted)."""
    from . import _txn_sim as TS
    out = Outcome()
    c = obs.cluster
    for e in c.harness_errors:
        raise RuntimeError("simulator error: %s" % e)
    per_tp = {}
    for a in c.arrivals:
        if a.key != 0:
            continue
        for b in a.extra.get("batches", []):
            per_tp.setdefault("%s:%d" % tuple(b["tp"]), []).append((a, b))
    chained = False
    resent = False
    for tpk, lst in sorted(per_tp.items()):
        lst.sort(key=lambda ab: (ab[0].t_written, ab[0].seq))
        seq_state = {}
        for a, b in lst:
            ids = [TS.value_tag(v or b"") for v in b["values"]]
            if b["pid"] < 0:
                out.fail("seq_chain", "no_producer_id", {"tp": tpk, "arrival": a.seq}, transactional=True)
                continue
            key = (b["pid"], b["epoch"])
            bs, cnt = b["base_seq"], b["count"]
            if not (0 <= bs <= PS.SEQ_MAX):
                out.fail("seq_chain", "out_of_range", {"tp": tpk, "base_seq": bs, "arrival": a.seq}, transactional=True)
            st = seq_state.get(key)
            if st is None:
                if bs != 0:
                    out.fail("seq_chain", "bad_first_sequence", {"tp": tpk, "base_seq": bs, "want": 0, "pid_epoch": key},
                             transactional=True)
                seq_state[key] = {"last": (bs, cnt, ids), "all": [(bs, cnt, ids)]}
                continue
            lb, lc, lids = st["last"]
            if (bs, cnt, ids) == (lb, lc, lids):
                resent = True
                continue
            want = SC.seq_add(lb, lc)
            if bs == want:
                if set(ids) & {i for (_, _, x) in st["all"] for i in x}:
                    out.fail("seq_chain", "records_resent_under_new_sequence", {"tp": tpk, "ids": ids}, transactional=True)
                if {i[0] for i in ids if i} - {i[0] for i in lids if i}:
                    chained = True                     # a later transaction continues the chain of an earlier one
            elif any((bs, cnt, ids) == x for x in st["all"]):
                out.fail("seq_chain", "old_batch_resent_after_newer", {"tp": tpk, "base_seq": bs}, transactional=True)
                continue
            elif any(bs == x[0] for x in st["all"]):
                out.fail("seq_chain", "reused_sequence", {"tp": tpk, "base_seq": bs, "count": cnt, "ids": ids,
                                                          "pid_epoch": key}, transactional=True)
            else:
                out.fail("seq_chain", "gap", {"tp": tpk, "base_seq": bs, "want": want, "prev": [lb, lc], "pid_epoch": key},
                         transactional=True)
            st["last"] = (bs, cnt, ids)
            st["all"].append((bs, cnt, ids))
    # every acknowledged record sits in its partition log exactly once, every accepted one at most once
    rc, ru = TS.committed_view(obs)
    for srec in obs.sends:
        places = ru.get(srec["id"], [])
        if len(places) > 1:
            out.fail("idem_once", "duplicate", {"id": srec["id"], "places": places}, transactional=True)
        oc = srec.get("outcome")
        if oc and oc[0] == "ok" and not places:
            out.fail("idem_once", "acknowledged_but_absent", {"id": srec["id"], "outcome": oc}, transactional=True)
    out.nontrivial = chained
    if chained:
        out.label("chain_continues_across_transactions")
    if resent:
        out.label("batch_resent")
    if c.fault_log:
        out.label("fault_fired")
    out.label("transactional", "producers_%d" % len(case["procs"]))
    out.info = {"sends": len(obs.sends), "produce_requests": sum(1 for a in c.arrivals if a.key == 0),
                "faults_fired": len(c.fault_log)}
    return out


def execute_txn(case):
    from . import _txn_sim as TS
    return evaluate_txn(case, TS.run(case))


def _txn_strategy():
    from . import c07
    return c07.strategy()


def _txn_setup():
    from . import _txn_sim as TS
    TS.setup()


def campaigns(tier):
    th = tier == "thorough"
    return [
        Campaign("produce_sim", "hyp", execute=execute, strategy=lambda: PS.strategy("order"),
                 examples=40000 if th else 6000, setup=PS.setup, max_wall=900 if th else 100, shrink_wall=40),
        Campaign("sequence_wrap", "hyp", execute=execute, strategy=lambda: PS.strategy("order", wrap=True),
                 examples=4000 if th else 600, setup=PS.setup, max_wall=300 if th else 40, shrink_wall=30),
        # the leader of some partitions is down before the first record is sent and returns while sends go on
        Campaign("outage_window", "hyp", execute=execute, strategy=lambda: PS.strategy("outage"),
                 examples=12000 if th else 1500, setup=PS.setup, max_wall=400 if th else 60, shrink_wall=30),
        Campaign("txn_chain", "hyp", execute=execute_txn, strategy=_txn_strategy,
                 examples=20000 if th else 4000, setup=_txn_setup, max_wall=400 if th else 60, shrink_wall=30),
    ]
