"""Campaign runner: process pool, collect-then-shrink, known findings, evidence."""
import hashlib
import importlib
import json
import multiprocessing
import os
import pickle
import re
import shutil
import sys
import time
import traceback

from .core import (Failure, HarnessError, LibraryFault, guarded, Outcome, canon, clip, fingerprint, jsonify,
                   unjsonify)

VERIF = os.path.dirname(os.path.dirname(os.path.abspath(__file__)))
MAX_SIGS_PER_WORKER = 4


def env_seed():
    try:
        return int(os.environ.get("VERIF_SEED", "1"))
    except ValueError:
        return int(hashlib.sha1(os.environ["VERIF_SEED"].encode()).hexdigest()[:8], 16)


def nprocs():
    return max(1, int(os.environ.get("VERIF_PROCS", str(min(16, os.cpu_count() or 4)))))


def derive_seed(*parts):
    return int(hashlib.sha1(":".join(str(p) for p in parts).encode()).hexdigest()[:12], 16)


class Campaign:
    """One generated-input search.

    kind "hyp":  strategy() -> Hypothesis strategy of JSON-able cases; `examples` total.
    kind "enum": cases(shard, nshards) -> iterator of JSON-able cases (a finite space,
                 sharded deterministically); `exhaustive` says whether the space is complete.
    kind "custom": run(ctx) -> None, using ctx.record()/ctx.found() itself (e.g. fuzzers).
    execute(case) -> Outcome.
    """

    def __init__(self, name, kind, execute=None, strategy=None, examples=0, cases=None,
                 exhaustive=False, run=None, max_wall=None, shrink_wall=60.0, workers=None,
                 setup=None, distinct_by_construction=False, sample_every=1):
        self.name = name
        self.kind = kind
        self.execute = execute
        self.strategy = strategy
        self.examples = examples
        self.cases = cases
        self.exhaustive = exhaustive
        self.run = run
        self.max_wall = max_wall
        self.shrink_wall = shrink_wall
        self.workers = workers
        self.setup = setup
        self.distinct_by_construction = distinct_by_construction or kind == "enum"
        self.sample_every = sample_every


class Stats:
    def __init__(self):
        self.evaluations = 0
        self.nt = set()
        self.nt_count = 0
        self.labels = {}
        self.samples = []
        self.found = {}      # sig -> record
        self.known = {}      # finding id -> count
        self.known_example = {}
        self.errors = []     # harness errors (tracebacks)
        self.skipped_after_wall = 0
        self.wall_capped = False
        self.extra = {}

    def record(self, case, out, distinct_by_construction=False, max_samples=3):
        self.evaluations += 1
        if isinstance(case, dict) and case.get("debug_log"):
            out.label("debug_logging_on")
        for l in out.labels:
            self.labels[l] = self.labels.get(l, 0) + 1
        if out.nontrivial:
            if distinct_by_construction:
                self.nt_count += 1
            else:
                self.nt.add(int(fingerprint(case), 16))
            if len(self.samples) < max_samples:
                s = {"case": clip(case)}
                if out.info is not None:
                    s["observed"] = clip(out.info, 600)
                if out.labels:
                    s["labels"] = sorted(out.labels)
                self.samples.append(s)


class Ctx:
    """Handed to workers: recording, known-finding filter, budget."""

    def __init__(self, prop_id, campaign, widx, nworkers, seed, tier, findings):
        self.prop_id = prop_id
        self.campaign = campaign
        self.widx = widx
        self.nworkers = nworkers
        self.seed = seed
        self.tier = tier
        self.findings = findings
        self.stats = Stats()
        self.t0 = time.time()

    def wall_left(self):
        if self.campaign.max_wall is None:
            return 1e9
        return self.campaign.max_wall - (time.time() - self.t0)

    def classify(self, failures):
        """Split failures into (new, known). Known ones are counted."""
        new = []
        for f in failures:
            k = self.findings.match(self.prop_id, f)
            if k is not None:
                self.stats.known[k] = self.stats.known.get(k, 0) + 1
                continue
            new.append(f)
        return new

    def note_found(self, f, case):
        rec = self.stats.found.get(f.sig)
        cj = jsonify(case)
        size = len(json.dumps(cj))
        if rec is None or size < rec["size"]:
            self.stats.found[f.sig] = {"failure": f.to_json(), "case": cj, "size": size,
                                       "hashseed": int(os.environ.get("PYTHONHASHSEED", "0") or 0),
                                       "campaign": self.campaign.name}


class Findings:
    def __init__(self, path=None):
        path = path or os.path.join(VERIF, "known_findings.json")
        self.entries = []
        self.fixed = []
        if os.path.exists(path):
            with open(path) as fh:
                d = json.load(fh)
            self.entries = d.get("findings", [])
            self.fixed = d.get("fixed", [])

    def match(self, prop_id, f):
        for e in self.entries:
            if e.get("property") != prop_id:
                continue
            if "clause" in e and e["clause"] != f.clause:
                continue
            if "site_re" in e and not re.search(e["site_re"], f.site or ""):
                continue
            ok = True
            for k, v in (e.get("params") or {}).items():
                if jsonify(f.params.get(k)) != v:
                    ok = False
                    break
            if ok:
                return e["id"]
        return None

    def describe(self, fid):
        for e in self.entries:
            if e["id"] == fid:
                return e.get("description", fid)
        return fid


class _Violation(Exception):
    pass


_HYP_INTERNAL = (ValueError, IndexError, KeyError, AssertionError, TypeError)


def _boom(sig):
    # single raise site: Hypothesis identifies a failure by exception type + origin line
    raise _Violation(sig)


def _normalise(case):
    return unjsonify(jsonify(case))


def _run_enum(ctx):
    c = ctx.campaign
    n = 0
    for case in c.cases(ctx.widx, ctx.nworkers):
        if (n & 255) == 0 and ctx.wall_left() < 0:
            ctx.stats.wall_capped = True
            break
        n += 1
        out = guarded(c.execute)(case)
        ctx.stats.record(case, out, c.distinct_by_construction)
        if out.failures:
            for f in ctx.classify(out.failures):
                ctx.note_found(f, case)


def _run_hyp(ctx):
    import hypothesis
    from hypothesis import HealthCheck, Phase, given, settings
    from hypothesis.errors import Flaky

    c = ctx.campaign
    total = max(1, c.examples // ctx.nworkers + (1 if ctx.widx < c.examples % ctx.nworkers else 0))
    excluded = set()
    done = 0
    restart = 0
    strat = c.strategy()
    while done < total and restart <= MAX_SIGS_PER_WORKER:
        state = {"target": None, "t_found": None, "verdicts": {}, "last_fail": None, "n": 0}
        done, stop = _hyp_round(ctx, c, strat, state, excluded, total, done, restart)
        restart += 1
        if stop:
            break


def _hyp_round(ctx, c, strat, state, excluded, total, done, restart):
    import hypothesis
    from hypothesis import HealthCheck, Phase, given, settings
    from hypothesis.errors import Flaky
    if True:

        def body(raw):
            if state["target"] is None and ctx.wall_left() < 0:
                ctx.stats.wall_capped = True
                ctx.stats.skipped_after_wall += 1
                return
            case = _normalise(raw)
            if state["target"] is not None:
                fp = fingerprint(case)
                if fp in state["verdicts"]:
                    if state["verdicts"][fp]:
                        state["last_fail"] = (case, state["verdicts"][fp])
                        _boom(state["target"])
                    return
                if time.time() - state["t_found"] > c.shrink_wall:
                    return
            out = guarded(c.execute)(case)
            if state["target"] is None:
                state["n"] += 1
                ctx.stats.record(case, out, c.distinct_by_construction)
            new = ctx.classify(out.failures) if out.failures else []
            new = [f for f in new if f.sig not in excluded]
            if state["target"] is None:
                if new:
                    state["target"] = new[0].sig
                    state["t_found"] = time.time()
                    state["verdicts"][fingerprint(case)] = new[0]
                    state["last_fail"] = (case, new[0])
                    _boom(new[0].sig)
                return
            hit = [f for f in new if f.sig == state["target"]]
            state["verdicts"][fingerprint(case)] = hit[0] if hit else None
            if hit:
                state["last_fail"] = (case, hit[0])
                _boom(state["target"])

        s = settings(max_examples=total - done, database=None, deadline=None, derandomize=False,
                     report_multiple_bugs=False, suppress_health_check=list(HealthCheck),
                     phases=[Phase.generate, Phase.shrink], verbosity=hypothesis.Verbosity.quiet,
                     print_blob=False)
        test = hypothesis.seed(derive_seed(ctx.seed, c.name, ctx.widx, restart))(
            settings(s)(given(strat)(body)))
        try:
            test()
        except _Violation:
            case, f = state["last_fail"]
            ctx.note_found(f, case)
            excluded.add(f.sig)
        except _HYP_INTERNAL as e:
            # the library's own shrinker failed (seen: ValueError from choice_to_index on a text draw) after a
            # violation had been found: keep the smallest failing case seen so far instead of losing the finding
            tb = traceback.extract_tb(e.__traceback__)
            if state["last_fail"] and tb and "/hypothesis/" in tb[-1].filename.replace(os.sep, "/"):
                case, f = state["last_fail"]
                ctx.note_found(f, case)
                excluded.add(f.sig)
                ctx.stats.extra["shrinker_errors"] = ctx.stats.extra.get("shrinker_errors", 0) + 1
            else:
                raise
        except Flaky as e:  # includes FlakyFailure
            ctx.stats.errors.append("Flaky (non-deterministic case) in %s: %r\nlast_fail=%s" % (
                c.name, e, canon(state["last_fail"][0])[:3000] if state["last_fail"] else None))
            if state["last_fail"]:
                excluded.add(state["last_fail"][1].sig)
            else:
                return done, True
        done += max(1, state["n"])
        return done, ctx.stats.wall_capped


def worker_process(prop_mod_name, tier, widx, nworkers, seed, outdir):
    """Body of one worker process (fresh interpreter: forked workers were 10x slower
    here because of copy-on-write fault contention)."""
    import logging
    logging.disable(logging.CRITICAL)
    mod = importlib.import_module(prop_mod_name)
    for camp in mod.campaigns(tier):
        nw = _camp_workers(camp, nworkers)
        if widx >= nw:
            continue
        ctx = Ctx(mod.ID, camp, widx, nw, seed, tier, Findings())
        tc = time.time()
        try:
            if camp.setup:
                camp.setup()
            if camp.kind == "enum":
                _run_enum(ctx)
            elif camp.kind == "hyp":
                _run_hyp(ctx)
            else:
                camp.run(ctx)
        except BaseException:
            ctx.stats.errors.append(traceback.format_exc())
        ctx.stats.extra["worker_wall_s"] = round(time.time() - tc, 2)
        op = os.path.join(outdir, "%s.w%d.pkl" % (_sanitise(camp.name), widx))
        with open(op + ".tmp", "wb") as fh:
            pickle.dump(ctx.stats, fh)
        os.rename(op + ".tmp", op)


HASHSEEDS = 4


def worker_hashseed(w):
    return w % HASHSEEDS


def _camp_workers(camp, nworkers):
    nw = camp.workers or nworkers
    if camp.kind == "hyp":
        nw = max(1, min(nw, camp.examples))
    return nw


def _sanitise(s):
    return re.sub(r"[^A-Za-z0-9_.-]+", "_", s)[:80]


class Result:
    def __init__(self):
        self.evaluations = 0
        self.nt = set()
        self.nt_count = 0
        self.labels = {}
        self.samples = []
        self.found = {}
        self.known = {}
        self.errors = []
        self.campaigns = {}
        self.exhaustive = []
        self.wall_capped = []


def run_property(prop_id, tier, replay=None):
    t0 = time.time()
    prop_mod_name = "props.%s" % prop_id.lower()
    mod = importlib.import_module(prop_mod_name)
    seed = env_seed()
    findings = Findings()
    import logging
    logging.disable(logging.CRITICAL)
    if replay:
        return _replay(mod, replay, findings)

    res = Result()
    outbase = os.environ.get("VERIF_OUT_DIR") or os.path.join(VERIF, "out")
    outdir = os.path.join(outbase, prop_id)
    shutil.rmtree(outdir, ignore_errors=True)
    os.makedirs(outdir, exist_ok=True)

    # 1. committed regression replays
    regdir = os.path.join(VERIF, "regress", prop_id)
    reg_fail = []
    n_reg = 0
    if os.path.isdir(regdir):
        camps = {c.name: c for c in mod.campaigns(tier)}
        for fn in sorted(os.listdir(regdir)):
            if not fn.endswith(".json"):
                continue
            with open(os.path.join(regdir, fn)) as fh:
                rec = json.load(fh)
            c = camps.get(rec.get("campaign"))
            if c is None or c.execute is None:
                continue
            n_reg += 1
            if int(rec.get("hashseed", 0)) != int(os.environ.get("PYTHONHASHSEED", "0") or 0):
                rc, lines = _replay_subprocess(prop_id, os.path.join(regdir, fn), rec.get("hashseed", 0))
                for ln in lines:
                    if ln.startswith("KNOWN-FINDING"):
                        print(ln)
                if rc == 1:
                    reg_fail.append((os.path.join("regress", prop_id, fn),
                                     Failure("regression", "replay_under_hashseed_%s" % rec.get("hashseed"), {"output": lines[-3:]})))
                elif rc != 0:
                    res.errors.append("regression replay %s failed to run: %s" % (fn, lines[-5:]))
                continue
            if c.setup:
                c.setup()
            out = guarded(c.execute)(unjsonify(rec["case"]))
            for f in out.failures:
                k = findings.match(prop_id, f)
                if k is not None:
                    res.known[k] = res.known.get(k, 0) + 1
                else:
                    reg_fail.append((os.path.join("regress", prop_id, fn), f))

    # 2. campaigns: one fresh interpreter per worker index, each runs its shard of
    #    every campaign in order
    import subprocess
    nw_all = nprocs()
    env = dict(os.environ)
    env["PYTHONPATH"] = os.pathsep.join([VERIF] + ([os.path.join(VERIF, ".deps")]
                                                  if os.path.isdir(os.path.join(VERIF, ".deps")) else []))
    camps = mod.campaigns(tier)
    maxw = max([_camp_workers(c, nw_all) for c in camps] or [1])
    procs = []
    for w in range(maxw):
        lp = os.path.join(outdir, "worker%d.log" % w)
        lf = open(lp, "w")
        # workers explore HASHSEEDS different iteration orders of the client's sets (a schedule dimension); a
        # failure records the value it was found and shrunk under, and its replay runs under the same value
        wenv = dict(env, PYTHONHASHSEED=str(worker_hashseed(w)))
        p = subprocess.Popen([sys.executable, "-m", "vlib.worker", prop_mod_name, tier, str(w),
                              str(nw_all), str(seed), outdir], cwd=VERIF, env=wenv,
                             stdout=lf, stderr=subprocess.STDOUT)
        procs.append((p, lp, lf))
    for p, lp, lf in procs:
        p.wait()
        lf.close()
        if p.returncode != 0:
            with open(lp) as fh:
                res.errors.append("worker exited with %s: %s" % (p.returncode, fh.read()[-3000:]))
    for camp in camps:
        nw = _camp_workers(camp, nw_all)
        cinfo = {"kind": camp.kind, "workers": nw, "evaluations": 0, "wall_s": 0.0}
        for w in range(nw):
            op = os.path.join(outdir, "%s.w%d.pkl" % (_sanitise(camp.name), w))
            if not os.path.exists(op):
                res.errors.append("no result from worker %d of campaign %s" % (w, camp.name))
                continue
            with open(op, "rb") as fh:
                st = pickle.load(fh)
            os.unlink(op)
            res.evaluations += st.evaluations
            cinfo["evaluations"] += st.evaluations
            res.nt |= st.nt
            res.nt_count += st.nt_count
            for k, v in st.labels.items():
                res.labels[k] = res.labels.get(k, 0) + v
            for s in st.samples[:1 if len(res.samples) >= 3 else 2]:
                if len(res.samples) < 8 and not any(x["campaign"] == camp.name for x in res.samples[2:]):
                    s = dict(s)
                    s["campaign"] = camp.name
                    res.samples.append(s)
            for sig, rec in st.found.items():
                if sig not in res.found or rec["size"] < res.found[sig]["size"]:
                    res.found[sig] = rec
            for k, v in st.known.items():
                res.known[k] = res.known.get(k, 0) + v
            res.errors.extend(st.errors)
            if st.wall_capped:
                cinfo["wall_capped"] = True
            for k, v in st.extra.items():
                if k == "worker_wall_s":
                    cinfo["wall_s"] = max(cinfo["wall_s"], v)
                elif isinstance(v, (int, float)):
                    cinfo[k] = cinfo.get(k, 0) + v
                else:
                    cinfo.setdefault(k, v)
        if camp.kind == "enum" and camp.exhaustive and not cinfo.get("wall_capped"):
            cinfo["exhaustive"] = True
        res.campaigns[camp.name] = cinfo

    # 3. verdict
    violations = []
    rdir = os.path.join(os.path.relpath(outbase, VERIF), "replay", prop_id)
    os.makedirs(os.path.join(VERIF, rdir), exist_ok=True)
    for path, f in reg_fail:
        violations.append((path, f.sig))
    for sig, rec in sorted(res.found.items()):
        path = os.path.join(rdir, _sanitise(sig) + ".json")
        with open(os.path.join(VERIF, path), "w") as fh:
            json.dump({"property": prop_id, "campaign": rec["campaign"], "sig": sig,
                       "failure": rec["failure"], "case": rec["case"], "seed": seed, "tier": tier,
                       "hashseed": rec.get("hashseed", 0)},
                      fh, indent=1, sort_keys=True)
        violations.append((path, sig))

    for k in sorted(res.known):
        print("KNOWN-FINDING: property=%s %s (seen %d times)" % (prop_id, findings.describe(k), res.known[k]))
    for path, sig in violations:
        print("VIOLATION property=%s replay=%s  [%s]" % (prop_id, path, sig))
        try:
            with open(os.path.join(VERIF, path)) as fh:
                d = json.load(fh)
            print("  detail: %s" % json.dumps(d.get("failure", {}).get("detail"))[:800])
        except Exception:
            pass
    for e in res.errors[:5]:
        print("HARNESS-ERROR: %s" % e, file=sys.stderr)

    _write_evidence(mod, prop_id, tier, seed, res, violations, n_reg, time.time() - t0)
    nt = len(res.nt) + res.nt_count
    print("%s %s: evaluations=%d distinct_nontrivial=%d violations=%d known=%d wall=%.1fs" % (
        prop_id, tier, res.evaluations, nt, len(violations), len(res.known), time.time() - t0))
    if res.errors:
        return 2
    if violations:
        return 1
    return 0


def _write_evidence(mod, prop_id, tier, seed, res, violations, n_reg, wall):
    nt = len(res.nt) + res.nt_count
    cov = {
        "evaluations": res.evaluations,
        "distinct_nontrivial": nt,
        "rule": mod.RULE,
        "samples": res.samples[:8],
        "class_histogram": dict(sorted(res.labels.items())),
        "campaigns": res.campaigns,
        "regression_replays": n_reg,
        "known_findings_seen": {k: v for k, v in sorted(res.known.items())},
        "violation_signatures": [s for _, s in violations],
        "exhaustive": bool(res.campaigns) and all(
            c.get("exhaustive") for c in res.campaigns.values()),
        "exhaustive_campaigns": sorted(n for n, c in res.campaigns.items() if c.get("exhaustive")),
        "harness_errors": len(res.errors),
    }
    ev = {
        "property_id": prop_id, "tier": tier, "seed": seed, "level": mod.LEVEL,
        "coverage": cov, "assumptions": list(getattr(mod, "ASSUMPTIONS", [])),
        "wall_s": round(wall, 2), "violations": len(violations),
    }
    evdir = os.environ.get("VERIF_EVIDENCE_DIR") or os.path.join(VERIF, "evidence")
    os.makedirs(evdir, exist_ok=True)
    p = os.path.join(evdir, "%s.json" % prop_id)
    with open(p + ".tmp", "w") as fh:
        json.dump(ev, fh, indent=1, sort_keys=True)
    os.rename(p + ".tmp", p)


def _replay_subprocess(prop_id, path, hashseed):
    import subprocess
    env = dict(os.environ, VERIF_HASHSEED=str(int(hashseed)))
    p = subprocess.run([os.path.join(VERIF, "check"), prop_id, "--replay", path], cwd=VERIF, env=env,
                       stdout=subprocess.PIPE, stderr=subprocess.STDOUT, text=True)
    return p.returncode, p.stdout.splitlines()


def _replay(mod, path, findings):
    with open(path) as fh:
        rec = json.load(fh)
    hs = int(rec.get("hashseed", 0))
    if hs != int(os.environ.get("PYTHONHASHSEED", "0") or 0):
        rc, lines = _replay_subprocess(mod.ID, os.path.abspath(path), hs)
        print("\n".join(lines))
        return rc
    tier = rec.get("tier", "quick")
    camps = {c.name: c for c in mod.campaigns(tier)}
    c = camps.get(rec.get("campaign"))
    if c is None:
        for t in ("quick", "thorough"):
            for cc in mod.campaigns(t):
                if cc.name == rec.get("campaign"):
                    c = cc
    if c is None or c.execute is None:
        print("replay: unknown campaign %r" % rec.get("campaign"), file=sys.stderr)
        return 2
    if c.setup:
        c.setup()
    out = guarded(c.execute)(unjsonify(rec["case"]))
    bad = 0
    for f in out.failures:
        k = findings.match(mod.ID, f)
        if k is not None:
            print("KNOWN-FINDING: property=%s %s" % (mod.ID, findings.describe(k)))
            continue
        bad += 1
        print("VIOLATION property=%s replay=%s  [%s]" % (mod.ID, path, f.sig))
        print("  detail: %s" % json.dumps(jsonify(f.detail))[:2000])
    if not out.failures:
        print("replay: no clause failed")
    return 1 if bad else 0
