"""C03 - consumer yields each visible record once, in offset order, from its position."""
from vlib.core import Outcome
from vlib.runner import Campaign

from . import _consumer_sim as CS

ID = "C03"
LEVEL = "exploration"
RULE = ("Case = partition logs built by the reference codec (v0/v1/v2, compressed wrappers, compaction "
        "gaps, empty and control batches, log start > 0, mixed formats in upgrade order) x fetch shaping "
        "(batches per response, trailing partial batch, max bytes) x 1-3 application tasks of "
        "getone/getmany/seek/pause/resume/position x faults on Fetch/Metadata/ListOffsets x leader moves, "
        "outages, external appends, log-start advances (retention). A real AIOKafkaConsumer (assign or group-less subscribe) runs it; "
        "every returned record is checked against a per-partition position model over the reference-"
        "decoded log. Non-trivial = a seek/pause landed while a fetch for that partition was in flight, "
        "or a fetch offset fell inside a batch, or a response was cut, or a fault fired. Distinct = "
        "distinct case value.")
ASSUMPTIONS = ["simulated cluster vlib/simkafka (fetch returns whole batches, at least one when data exists)",
               "reference codec vlib/refrecords builds and decodes the logs",
               "seeks stay inside [log start, log end] as of the call; auto_offset_reset=earliest; records below the final log "
               "start may be skipped if not yet delivered when retention removed them (other reset paths belong to C13)"]


def evaluate(case, obs):
    out = Outcome()
    if obs.start_error is not None:
        out.label("start_failed")
        return out
    c = obs.cluster
    for e in c.harness_errors:
        raise RuntimeError("simulator error: %s" % e)
    if obs.deadlock:
        out.fail("drains", "deadlock", {"deadlock": obs.deadlock})
    if obs.tasks_hung:
        out.fail("drains", "application_call_blocked_after_quiet", {"bound": obs.bound})
    pos, delivered, vis = CS.check_delivery(case, obs, out, "read_uncommitted")
    for k, p in getattr(obs, "final_positions", {}).items():
        if isinstance(p, int) and not obs.deadlock:
            nv = [x for x in vis[k] if x[0] >= max(pos[k], obs.final[k]["log_start"])]
            hi = nv[0][0] if nv else max(obs.final[k]["end"], pos[k])
            if not (pos[k] <= p <= hi):
                out.fail("position_bounds", "final_position", {"tp": k, "position": p, "model_pos": pos[k], "hi": hi})
    # ---- lost wake-up: a getone() that was already waiting when a fetch reply with the next record of an
    #      unpaused, requested partition was delivered must return it; giving up >= 100 ms later and the next call
    #      finding the record at once means the waiter was never woken (with `async for` it would hang for good)
    served_at = {}          # (tp, offset of first record served) -> delivery times of non-empty replies
    for a in c.arrivals:
        if a.key == 1 and a.delivered and a.t_end is not None and a.reply:
            for (t, p, off, bases) in a.extra.get("served", []):
                if bases:
                    served_at.setdefault("%s:%d" % (t, p), []).append((a.t_end, off))
    evs = [ev for ev in obs.events if ev["op"] == "getone" and "error" not in ev]
    by_task = {}
    for ev in evs:
        by_task.setdefault(ev.get("task"), []).append(ev)
    for task, lst in by_task.items():
        for prev, cur in zip(lst, lst[1:]):
            if prev.get("records") or not cur.get("records"):
                continue
            if cur["t"] - cur["t_call"] > 1e-4 or (prev.get("filter") or []) != (cur.get("filter") or []):
                continue
            r = cur["records"][0]
            early = [t_end for (t_end, off) in served_at.get(r["tp"], []) if off <= r["offset"] and
                     prev["t_call"] + 1e-6 < t_end < prev["t"] - 0.1]
            # (events are appended when an operation completes: anything between the two calls in that order)
            i0, i1 = obs.events.index(prev), obs.events.index(cur)
            moved = any(e["op"] in ("seek", "pause", "resume", "seek_position") and
                        e.get("t", e.get("t_call", 0.0)) > prev["t_call"] + 1e-9 for e in obs.events[min(i0, i1):max(i0, i1)]) or \
                any(e["op"] in ("seek", "pause", "resume", "seek_position") and prev["t_call"] + 1e-9 < e.get("t", e.get("t_call", 0.0)) <= cur["t"]
                    for e in obs.events)
            if early and not moved:
                out.fail("drains", "getone_not_woken_by_delivered_records",
                         {"tp": r["tp"], "offset": r["offset"], "reply_delivered_at": early[-1], "getone_waited_until": prev["t"],
                          "next_getone_returned_at": cur["t"], "task": task})
                break
    if obs.stop_error:
        out.label("stop_raised_" + obs.stop_error.split("(")[0])     # C19's subject
    errs = [ev for ev in obs.events if ev.get("error")]
    for ev in errs:
        out.label("api_error_" + ev["error"][0])
    # non-triviality
    inflight = any(ev.get("fetch_in_flight") for ev in obs.events)
    inside = False
    cut = False
    for a in c.arrivals:
        if a.key != 1:
            continue
        for (t, p, off, bases) in a.extra.get("served", []):
            if bases and bases[0] < off:
                inside = True
            pl = c.log(t, p)
            if bases and pl is not None and pl.batches and bases[-1] != pl.batches[-1].base_offset:
                cut = True
    out.nontrivial = bool(inflight or inside or cut or c.fault_log)
    if inflight:
        out.label("seek_or_pause_while_fetch_in_flight")
    if inside:
        out.label("fetch_offset_inside_batch")
    if cut:
        out.label("response_cut")
    if c.fault_log:
        out.label("fault_fired")
    if any(e.get("ev") == "trim" for e in case.get("env", [])) or any(op[0] == "trim" for t in case["tasks"] for op in t):
        out.label("log_start_moved")
    oor = [a for a in c.arrivals if a.key == 1 and a.reply and any(p.get("error") == 1 for t in a.reply["topics"] for p in t["partitions"])]
    if oor:
        out.label("fetch_answered_out_of_range")
        for a in oor:
            bad = {"%s:%d" % (t["topic"], p["partition"]) for t in a.reply["topics"] for p in t["partitions"] if p.get("error") == 1}
            if any(ev["op"] == "seek" and ev.get("tp") in bad and a.t_written is not None and a.t_end is not None and
                   a.t_written <= ev.get("t", ev.get("t_call", 0.0)) <= a.t_end for ev in obs.events):
                out.label("seek_while_out_of_range_fetch_in_flight")
    fmts = {b["fmt"] for lg in case["logs"] for b in lg["batches"] if "fmt" in b}
    for f in fmts:
        out.label("fmt_" + f)
    if any(b.get("codec") for lg in case["logs"] for b in lg["batches"]):
        out.label("compressed")
    if any(b.get("kind") in ("commit", "abort") for lg in case["logs"] for b in lg["batches"]):
        out.label("control_batch")
    if any(b.get("gone") or b.get("tail") or b.get("skip") or b.get("deltas") or b.get("kind") == "empty"
           for lg in case["logs"] for b in lg["batches"]):
        out.label("compaction_gaps")
    out.label("mode_" + case["cfg"].get("mode", "assign"))
    if any(a.extra.get("redirected") for a in c.arrivals if a.key == 1):
        out.label("leader_named_a_read_replica")
    if any(a.extra.get("follower_oor") for a in c.arrivals if a.key == 1):
        out.label("follower_answered_out_of_range_for_offset_the_leader_has")
    if getattr(obs, "deser_failures", None):
        out.label("deserializer_raised_once_for_a_record")
    out.info = {"delivered": {k: len(v) for k, v in delivered.items()}, "events": len(obs.events),
                "fetches": sum(1 for a in c.arrivals if a.key == 1), "vtime": round(obs.vtime, 2)}
    return out


def execute(case):
    return evaluate(case, CS.run(case))


def batch_specs(draw, st, n_max=9, allow_txn=False):
    phase = draw(st.sampled_from(["v2", "v2", "v2", "v1", "v0", "mixed"]))
    order = {"v2": ["v2"], "v1": ["v1"], "v0": ["v0"], "mixed": ["v0", "v1", "v2"]}[phase]
    cur = 0
    specs = []
    for _ in range(draw(st.integers(0, n_max))):
        if len(order) > 1 and cur < len(order) - 1 and draw(st.integers(0, 2)) == 0:
            cur += 1
        fmt = order[cur]
        kind = "data"
        if fmt == "v2":
            kind = draw(st.sampled_from(["data"] * 8 + ["commit", "abort", "empty"]))
        spec = {"fmt": fmt, "kind": kind, "n": draw(st.integers(1, 5)),
                "codec": draw(st.sampled_from([0, 0, 1, 2, 3, 4])),
                "pad": draw(st.sampled_from([0, 0, 30, 200]))}
        if kind in ("commit", "abort"):
            spec["pid"] = 7
        if draw(st.integers(0, 3)) == 0:
            # compaction gaps inside a batch; a compressed v0/v1 wrapper keeps the surviving inner messages' own
            # (absolute / relative) offsets and the offset of its last message
            spec["deltas"] = draw(st.lists(st.integers(1, 3), min_size=1, max_size=3))
            if fmt == "v2":
                spec["tail"] = draw(st.integers(0, 2))
        if draw(st.integers(0, 5)) == 0:
            spec["skip"] = draw(st.integers(1, 4))
        if draw(st.integers(0, 9)) == 0 and fmt == "v2":
            spec["gone"] = True
        if draw(st.integers(0, 5)) == 0 and fmt != "v0":
            spec["lat"] = True
        spec["ts"] = draw(st.lists(st.integers(0, 10 ** 12), min_size=1, max_size=3))
        specs.append(spec)
    if specs:
        specs[-1].pop("gone", None)     # the cleaner never removes the batch holding the log's last offset
    return specs


def strategy():
    from hypothesis import strategies as st

    @st.composite
    def cases(draw):
        nodes = draw(st.integers(1, 3))
        nparts = draw(st.integers(1, 3))
        logs = []
        for p in range(nparts):
            logs.append({"topic": "t0", "nparts": nparts, "partition": p,
                         "log_start": draw(st.sampled_from([0, 0, 0, 5, 100])),
                         "batches": batch_specs(draw, st), "hw_lag": draw(st.sampled_from([0, 0, 0, 1, 3]))})
        cfg = {"mode": draw(st.sampled_from(["assign", "assign", "subscribe"])),
               "max_partition_fetch_bytes": draw(st.sampled_from([1048576, 1048576, 300, 120])),
               "fetch_max_wait_ms": draw(st.sampled_from([20, 100, 500])),
               "check_crcs": draw(st.sampled_from([True, True, False])),
               "request_timeout_ms": draw(st.sampled_from([300, 1000])),
               "retry_backoff_ms": draw(st.sampled_from([10, 50])),
               "metadata_max_age_ms": draw(st.sampled_from([500, 5000])),
               "max_poll_records": draw(st.sampled_from([None, None, 1, 3]))}
        if draw(st.integers(0, 5)) == 0:
            m = draw(st.sampled_from([2, 3, 5, 7]))
            cfg["deser_fail"] = {"mod": m, "rem": draw(st.integers(0, m - 1))}
        if cfg["request_timeout_ms"] <= cfg["fetch_max_wait_ms"]:
            # every idle long-poll would "time out" and tear its connection down (with the metadata request queued
            # behind it): not a configuration a Kafka client is meant to run with (the Java client rejects it)
            cfg["request_timeout_ms"] = 1000
        if nodes > 1 and draw(st.integers(0, 3)) == 0:
            # follower reads (KIP-392): the consumer names its rack, the leader of some partitions points it at another
            # broker, whose own log start may be ahead of the leader's
            cfg["client_rack"] = "rack-a"
            for lg in logs:
                if draw(st.integers(0, 2)) > 0:
                    lg["follower"] = {"node": draw(st.integers(0, nodes - 1)),
                                      "start_frac": draw(st.sampled_from([0.0, 0.0, 0.3, 0.6, 1.0]))}
        idxs = st.lists(st.integers(0, nparts - 1), max_size=nparts)
        tasks = []
        for ti in range(draw(st.integers(1, 3))):
            ops = []
            for _ in range(draw(st.integers(1, 20 if ti == 0 else 10))):
                r = draw(st.integers(0, 19))
                if r <= 5:
                    ops.append(["getone", draw(idxs), draw(st.sampled_from([0.02, 0.1, 0.5]))])
                elif r <= 10:
                    ops.append(["getmany", draw(idxs), draw(st.sampled_from([None, None, 1, 2, 5])),
                                draw(st.sampled_from([0, 10, 100, 300]))])
                elif r <= 12:
                    ops.append(["seek", draw(st.integers(0, nparts - 1)), draw(st.sampled_from([0.0, 0.2, 0.5, 0.8, 1.0]))])
                elif r == 13:
                    ops.append(["seek_position", draw(st.integers(0, nparts - 1)), draw(st.sampled_from([0.0, 0.3, 0.6, 1.0]))])
                elif r == 14:
                    ops.append(["pause", draw(st.lists(st.integers(0, nparts - 1), min_size=1, max_size=nparts))])
                elif r == 15:
                    ops.append(["resume", draw(st.lists(st.integers(0, nparts - 1), min_size=1, max_size=nparts))])
                elif r == 16:
                    ops.append(["position", draw(st.integers(0, nparts - 1))])
                else:
                    ops.append(["sleep", draw(st.sampled_from([0.0, 0.001, 0.004, 0.02, 0.1, 0.4]))])
            tasks.append(ops)
        faults = []
        for _ in range(draw(st.integers(0, 6))):
            sel = draw(st.sampled_from(["fetch", "fetch", "fetch", "metadata", "list_offsets"]))
            if sel == "fetch":
                act = draw(st.sampled_from(["error", "drop", "no_reply", "delay", "swallow"]))
                code = draw(st.sampled_from([6, 3, 5, 7, 9, 78]))
            elif sel == "metadata":
                # a topic-level metadata error changes the partition set a group-less subscriber
                # is assigned (fresh positions by design), so it is only drawn for manual assignment
                act = draw(st.sampled_from(["stale", "drop", "delay", "error"] if cfg["mode"] == "assign"
                                           else ["stale", "drop", "delay"]))
                code = draw(st.sampled_from([5, 3]))
            else:
                act = draw(st.sampled_from(["error", "drop", "no_reply"]))
                code = draw(st.sampled_from([6, 3, 5, 7]))
            faults.append({"sel": sel, "k": draw(st.integers(0, 5)), "act": act, "code": code,
                           "delay": draw(st.sampled_from([0.05, 0.4, 1.5]))})
        env = []
        for _ in range(draw(st.integers(0, 3))):
            env.append({"at": draw(st.sampled_from([0.01, 0.03, 0.1, 0.3, 0.8])), "ev": "append",
                        "log": draw(st.integers(0, nparts - 1)),
                        "spec": {"fmt": "v2", "kind": "data", "n": draw(st.integers(1, 3)),
                                 "codec": draw(st.sampled_from([0, 1])), "ts": [5]}})
        if draw(st.integers(0, 3)) == 0:
            # retention moves the log start while the consumer runs: a fetch at the old position is answered
            # OFFSET_OUT_OF_RANGE (reset to earliest), possibly after the application has already sought elsewhere
            for _ in range(draw(st.integers(1, 2))):
                env.append({"at": draw(st.sampled_from([0.005, 0.012, 0.03, 0.1, 0.3])), "ev": "trim",
                            "log": draw(st.integers(0, nparts - 1)), "frac": draw(st.sampled_from([0.3, 0.6, 1.0]))})
        if draw(st.integers(0, 4)) == 0:
            at = draw(st.sampled_from([0.0, 0.01, 0.05, 0.2, 0.6]))
            env.append({"at": at, "ev": "leader_gone", "topic": "t0", "partition": draw(st.integers(0, nparts - 1)),
                        "back_at": at + draw(st.sampled_from([0.03, 0.2, 0.8]))})
        if nodes > 1:
            for _ in range(draw(st.integers(0, 2))):
                env.append({"at": draw(st.sampled_from([0.01, 0.05, 0.2, 0.6])), "ev": "move_leader", "topic": "t0",
                            "partition": draw(st.integers(0, nparts - 1)), "to": draw(st.integers(0, nodes - 1))})
            if draw(st.integers(0, 6)) == 0:
                n = draw(st.integers(0, nodes - 1))
                t0 = draw(st.sampled_from([0.01, 0.05, 0.3]))
                env.append({"at": t0, "ev": "node_down", "node": n, "blackhole": draw(st.booleans())})
                env.append({"at": t0 + draw(st.sampled_from([0.1, 0.5, 2.0])), "ev": "node_up", "node": n})
        return {"cfg": cfg,
                "cluster": {"nodes": nodes, "fetch_max": draw(st.sampled_from([11, 11, 10, 7, 5, 4, 3, 2, 1])),
                            "list_offsets_max": draw(st.sampled_from([3, 3, 2, 1, 0]))},
                "logs": logs, "tasks": tasks, "faults": faults, "env": env,
                "shape_batches": draw(st.lists(st.sampled_from([0, 0, 1, 2, 3]), min_size=1, max_size=4)),
                "shape_partial": draw(st.lists(st.sampled_from([0, 0, 5, 20, 70]), min_size=1, max_size=3)),
                "lat": draw(st.lists(st.sampled_from([0.0005, 0.001, 0.003, 0.01, 0.02]), min_size=1, max_size=4)),
                "chunks": draw(st.lists(st.sampled_from([0, 0, 1, 5, 13, 64]), min_size=1, max_size=4)),
                "rng_seed": draw(st.integers(0, 2 ** 31)),
                "debug_log": draw(st.integers(0, 7)) == 0,
                "drain": draw(st.sampled_from(["getmany", "getmany", "getone"]))}
    return cases()


def stale_error_cases(shard, nshards, stride=1):
    """Retention passes a position the application had sought to; the Fetch at that position is answered
    OFFSET_OUT_OF_RANGE, and a second seek lands at a swept instant around that answer: the stale error must not
    undo it.  Sleeps, the trim instant and the latency are swept so that every order of the five events occurs."""
    i = 0
    batches = [{"fmt": "v2", "kind": "data", "n": 3, "codec": 0, "pad": 0, "ts": [5]} for _ in range(6)]
    for lat in (0.02, 0.005, 0.05):
        for x in (0.0, 0.02, 0.04, 0.06, 0.08, 0.1, 0.12, 0.16, 0.2):
            for d1 in (0.0, 0.004):
                for y in (0.002, 0.005, 0.01, 0.02, 0.03, 0.045, 0.06, 0.08, 0.1, 0.13, 0.17, 0.22):
                    i += 1
                    if i % stride or (i // stride) % nshards != shard:
                        continue
                    ops = [["getmany", [0], None, 300], ["sleep", x], ["seek", 0, 0.0], ["sleep", d1], ["trim", 0, 0.5],
                           ["sleep", y], ["seek", 0, 0.8]] + [["getmany", [0], None, 300]] * 3
                    yield {"cfg": {"mode": "assign", "max_partition_fetch_bytes": 1048576, "fetch_max_wait_ms": 100,
                                   "check_crcs": True, "request_timeout_ms": 1000, "retry_backoff_ms": 20,
                                   "metadata_max_age_ms": 5000, "max_poll_records": None},
                           "cluster": {"nodes": 1, "fetch_max": 11, "list_offsets_max": 3},
                           "logs": [{"topic": "t0", "nparts": 1, "partition": 0, "log_start": 0, "batches": batches, "hw_lag": 0}],
                           "tasks": [ops], "faults": [], "env": [],
                           "shape_batches": [0], "shape_partial": [0], "lat": [lat], "chunks": [0], "rng_seed": 1,
                           "drain": "getmany"}


def simultaneous_reply_cases(shard, nshards):
    """Two partitions led by two brokers that answer at the same instant (equal latencies, fetch_max_wait_ms=0 so an
    empty log is answered at once): one reply carries records, the other none, while a getone() with a long timeout
    is already waiting.  The waiter must be woken by the reply that has the records."""
    i = 0
    data = [{"fmt": "v2", "kind": "data", "n": 2, "codec": 0, "pad": 0, "ts": [5]} for _ in range(2)]
    for nodes in (2, 3):
        for with_data in (0, 1):
            for lat in (0.001, 0.003):
                for filt in ([], [0, 1]):
                    i += 1
                    if i % nshards != shard:
                        continue
                    logs = [{"topic": "t0", "nparts": 2, "partition": q, "log_start": 0,
                             "batches": list(data) if q == with_data else [], "hw_lag": 0} for q in (0, 1)]
                    yield {"cfg": {"mode": "assign", "max_partition_fetch_bytes": 1048576, "fetch_max_wait_ms": 0,
                                   "check_crcs": True, "request_timeout_ms": 1000, "retry_backoff_ms": 20,
                                   "metadata_max_age_ms": 5000, "max_poll_records": None},
                           "cluster": {"nodes": nodes, "fetch_max": 11, "list_offsets_max": 3},
                           # drain what is there, pause both, let new data arrive for one of them, resume both at the
                           # same instant (their Fetch requests leave together), wait in getone()
                           "logs": logs,
                           "tasks": [[["getone", filt, 1.0]] * 4 + [["pause", [0, 1]], ["sleep", 0.02],
                                                                    ["append", with_data, data[0]], ["sleep", 0.01],
                                                                    ["resume", [0, 1]]] + [["getone", filt, 1.0]] * 3],
                           "faults": [], "env": [],
                           "shape_batches": [0], "shape_partial": [0], "lat": [lat], "chunks": [0], "rng_seed": 1,
                           "drain": "getone"}


def campaigns(tier):
    th = tier == "thorough"
    return [Campaign("simultaneous_replies", "enum", execute=execute, setup=CS.setup, exhaustive=True,
                     cases=simultaneous_reply_cases),
            Campaign("stale_error", "enum", execute=execute, setup=CS.setup, exhaustive=th,
                     cases=(lambda s, n: stale_error_cases(s, n, 1)) if th else (lambda s, n: stale_error_cases(s, n, 1))),
            Campaign("fetch_sim", "hyp", execute=execute, strategy=strategy,
                     examples=30000 if th else 6000, setup=CS.setup, max_wall=900 if th else 100, shrink_wall=40)]
