"""C07 - transactions are atomic and follow the transactional protocol order."""
from vlib.core import Outcome
from vlib.runner import Campaign

from . import _txn_sim as TS

ID = "C07"
LEVEL = "exploration"
RULE = ("Case = 1-4 transactions over 1-3 partitions (sends from 1-2 concurrent tasks, optionally one more task still "
        "sending while the transaction is being ended, optional "
        "send_offsets_to_transaction, commit or abort, optionally through the transaction() context) x "
        "retriable faults at any InitProducerId/AddPartitionsToTxn/AddOffsetsToTxn/TxnOffsetCommit/EndTxn/"
        "Produce/FindCoordinator request (error replies, drops before/after apply, lost replies, delays) x "
        "coordinator and leader moves, marker-write delays (CONCURRENT_TRANSACTIONS) x optional kill of the "
        "producer after its k-th request and replacement by a new instance with the same transactional id. "
        "Oracle = independent read-committed reader over the final logs + protocol-order invariants over "
        "the broker arrival log. Non-trivial = a fault fired between AddPartitions and EndTxn, or the "
        "producer was replaced mid-transaction, or offsets were part of a transaction. Distinct = distinct "
        "case value.")
ASSUMPTIONS = ["simulated transaction/group coordinators and partition leaders (vlib/simkafka)",
               "independent read-committed reader (props/_consumer_sim.visible_records over vlib/refrecords)",
               "a dead producer's open transaction is aborted by the coordinator (transaction timeout / fencing)",
               "bounded liveness after the quiet point"]

TXN_APIS = {"add_partitions", "add_offsets", "txn_offset_commit", "end_txn", "produce"}


def evaluate(case, obs):
    out = Outcome()
    c = obs.cluster
    for e in c.harness_errors:
        raise RuntimeError("simulator error: %s" % e)
    if obs.deadlock:
        out.fail("ends_as_requested", "deadlock", {"deadlock": obs.deadlock})
        return out
    only_retriable = not case.get("kills") and not case.get("zombie")
    if obs.hung:
        out.fail("ends_as_requested", "call_blocked_after_quiet", {"notes": obs.notes,
                                                                   "blocked": [s["step"] for s in obs.steps if "outcome" not in s]})
    # a producer instance that could not even start: with retriable faults only, InitProducerId / FindCoordinator
    # must be retried until they succeed (a replaced or fenced instance may legitimately fail)
    for tag, err in obs.start_errors:
        if "Unable to bootstrap" in err:
            out.label("bootstrap_failed")       # start() does not retry the bootstrap by design; not a transactional matter
        elif only_retriable:
            out.fail("ends_as_requested", "start_failed_under_retriable_faults:" + err.split("(")[0], {"proc": tag, "error": err})
        else:
            out.label("start_failed")
    for s in obs.steps:
        if s.get("unexpected"):
            out.fail("ends_as_requested", "unexpected_exception:" + s["outcome"][1], {"step": s["step"], "outcome": s["outcome"]})
    rc, ru = TS.committed_view(obs)
    sends = {s["id"]: s for s in obs.sends}
    # ---------------- atomicity per harness transaction
    for t in obs.txns:
        ids = [i for i in t["sends"]]
        vis = [i for i in ids if i in rc]
        end = t["end"]
        klass = None
        if end is not None and end[0] == "commit" and end[1][0] == "ok":
            klass = "SUCCESS"
        elif end is not None and end[0] == "abort":
            klass = "ABORTED"
        else:
            klass = "FAILED_OR_KILLED"
        t["klass"] = klass
        dup = [i for i in ids if len(rc.get(i, [])) > 1]
        if dup:
            out.fail("all_visible", "record_twice", {"txn": t["n"], "ids": dup})
        if klass == "SUCCESS":
            missing = [i for i in ids if i not in rc]
            if missing:
                out.fail("all_visible", "committed_record_not_visible", {"txn": t["n"], "missing": missing[:10],
                                                                           "in_log": [ru.get(i) for i in missing[:5]]})
            if t["offsets"]:
                gid, offs = t["offsets"]
                have = obs.group_offsets.get(gid, {})
                for p, o in offs.items():
                    if p in t.get("offsets_ambiguous", ()):
                        continue
                    if have.get("src:%s" % p) != o:
                        # a later committed transaction may have overwritten it
                        later = [x for x in obs.txns if x["n"] > t["n"] and x.get("offsets") and x["offsets"][0] == gid
                                 and p in x["offsets"][1]]
                        if not later:
                            out.fail("all_visible", "committed_offsets_not_stored", {"txn": t["n"], "want": offs, "have": have})
        elif klass == "ABORTED":
            if vis:
                out.fail("none_visible", "aborted_record_visible", {"txn": t["n"], "visible": vis[:10]})
            if t["offsets"]:
                gid, offs = t["offsets"]
                have = obs.group_offsets.get(gid, {})
                others = [x for x in obs.txns if x is not t and x.get("offsets") and x["offsets"][0] == gid]
                for p, o in offs.items():
                    if p in t.get("offsets_ambiguous", ()):
                        continue
                    if have.get("src:%s" % p) == o and not any(x["offsets"][1].get(p) == o for x in others):
                        out.fail("none_visible", "aborted_offsets_stored", {"txn": t["n"], "offs": offs, "have": have})
        else:
            # was EndTxn(COMMIT) ever written for it?  then all-or-nothing, else nothing
            commit_written = any(a.api == "end_txn" and a.body["committed"] and
                                 t["t_begin"] <= a.t_written <= (t.get("t_next_begin") or 1e18) and a.client_id == t["proc"]
                                 for a in c.arrivals)
            if commit_written:
                if vis and len(vis) != len(ids):
                    out.fail("atomic", "partially_visible", {"txn": t["n"], "visible": vis, "all": ids})
            elif vis:
                out.fail("none_visible", "unfinished_txn_record_visible", {"txn": t["n"], "visible": vis[:10],
                                                                            "end": end, "failed_ends": t.get("failed_ends")})
        if only_retriable and klass == "FAILED_OR_KILLED" and (end is not None or t.get("failed_ends")):
            out.fail("ends_as_requested", "end_call_failed_under_retriable_faults",
                     {"txn": t["n"], "end": end, "failed_ends": t.get("failed_ends"),
                      "faults": [f[1] for f in c.fault_log][:8]})
    # every send_offsets_to_transaction() that returned normally was written to the group coordinator: a TxnOffsetCommit
    # carrying its values was accepted there after the call was made ("all offset commits of a transaction")
    accepted_toc = [a for a in c.arrivals if a.key == 28 and "txn_index" in a.extra]
    for s in obs.steps:
        if s["step"] == "offsets" and s.get("outcome", ("",))[0] == "ok" and s.get("offsets"):
            gid, offs = s["offsets"]
            for p, o in offs.items():
                sent = any(a.body["group"] == gid and a.t >= s["t_call"] and
                           any(tt["topic"] == "src" and any(pp["partition"] == int(p) and pp["offset"] == o for pp in tt["partitions"])
                               for tt in a.body["topics"]) for a in accepted_toc)
                if not sent:
                    out.fail("all_visible", "acknowledged_offsets_never_written_to_the_group_coordinator",
                             {"call": {"t_call": s["t_call"], "t_return": s.get("t_return"), "offsets": offs},
                              "partition": p, "offset": o,
                              "accepted": [(round(a.t, 4), [(pp["partition"], pp["offset"]) for tt in a.body["topics"] for pp in tt["partitions"]])
                                           for a in accepted_toc][:8]})
    if sum(1 for s in obs.steps if s["step"] == "offsets" and any(
            x is not s and x["step"] == "offsets" and x.get("txn") == s.get("txn") and
            x["t_call"] <= s["t_call"] and x.get("t_return", 1e9) > s["t_call"] for x in obs.steps)):
        out.label("send_offsets_called_while_another_call_is_in_progress")
    # records sent outside any transaction must never be in the log
    for s in obs.sends:
        if not s["txn"] and s["id"] in ru:
            out.fail("txn_scope", "record_sent_without_transaction_in_log", {"id": s["id"], "where": ru[s["id"]]})
    # ---------------- protocol order over the arrival log, per (pid, epoch)
    timelines = {}
    for a in c.arrivals:
        if a.api in ("add_partitions", "end_txn", "add_offsets") and a.applied:
            pid, ep = a.body["producer_id"], a.body["producer_epoch"]
            ok = False
            if a.api == "add_partitions":
                rep = a.reply or {}
                # applied successfully on the coordinator (even if the reply was lost / replaced)
                ok = a.extra.get("txn_index") is not None
                tps = [(t["topic"], p) for t in a.body["topics"] for p in t["partitions"]]
                timelines.setdefault((pid, ep), []).append(("add", a, tps, ok))
            elif a.api == "end_txn":
                ok = a.extra.get("txn_index") is not None and not a.extra.get("repeat")
                timelines.setdefault((pid, ep), []).append(("end", a, None, ok))
    for a in c.arrivals:
        if a.api != "produce":
            continue
        for b in a.extra.get("batches", []):
            if not b["transactional"]:
                out.fail("txn_scope", "non_transactional_batch_from_transactional_producer", {"arrival": a.seq})
                continue
            key = (b["pid"], b["epoch"])
            tp = tuple(b["tp"])
            tl = timelines.get(key, [])
            # open set at the time the client wrote this request
            opened = False
            for kind, x, tps, ok in tl:
                if kind == "add" and ok and tp in tps:
                    # the acknowledgement must have been delivered before the write
                    delivered = x.delivered and x.reply is not None and x.t_end is not None and x.t_end <= a.t_written + 1e-9 \
                        and _reply_ok(x, tp)
                    if delivered and x.t <= a.t_written:
                        opened = True
                elif kind == "end" and ok and x.t <= a.t:
                    if x.t_written <= a.t_written:
                        opened = False
            if not opened:
                out.fail("add_before_produce", "produce_before_partition_acknowledged",
                         {"tp": list(tp), "produce_arrival": a.seq, "t_written": a.t_written, "pid_epoch": list(key),
                          "adds": [(x.seq, x.t, x.t_end, tps) for k2, x, tps, ok in tl if k2 == "add"][:6],
                          "ends": [(x.seq, x.t_written, x.t) for k2, x, tps, ok in tl if k2 == "end"][:6]})
    # no EndTxn while a batch of the transaction is unacknowledged / none arriving afterwards
    for key, tl in timelines.items():
        for kind, x, _, ok in tl:
            if kind != "end":
                continue
            for a in c.arrivals:
                if a.api != "produce" or not a.extra.get("batches"):
                    continue
                if not any((b["pid"], b["epoch"]) == key for b in a.extra["batches"]):
                    continue
                if a.t_written < x.t_written and (a.t_end is None or a.t_end > x.t_written + 1e-9):
                    out.fail("no_end_with_inflight", "produce_outstanding_at_end_txn",
                             {"end_arrival": x.seq, "produce_arrival": a.seq, "produce_end": a.t_end, "end_written": x.t_written})
        # every batch must have been acknowledged before the EndTxn that closes its transaction
        ends = sorted([x for kind, x, _, ok in tl if kind == "end" and ok], key=lambda x: x.t_written)
        acked = {}     # (tp, base_seq) -> time ack delivered
        first_written = {}
        for a in c.arrivals:
            if a.api != "produce":
                continue
            for b in a.extra.get("batches", []):
                if (b["pid"], b["epoch"]) != key:
                    continue
                k2 = (tuple(b["tp"]), b["base_seq"])
                first_written.setdefault(k2, a.t_written)
                if a.delivered and a.reply is not None and a.t_end is not None and _produce_ok(a, tuple(b["tp"])):
                    acked[k2] = min(acked.get(k2, 1e18), a.t_end)
        for k2, tw in first_written.items():
            nxt = [x for x in ends if x.t_written >= tw]
            if nxt and acked.get(k2, 1e18) > nxt[0].t_written + 1e-9:
                out.fail("no_end_with_inflight", "batch_unacknowledged_at_end_txn",
                         {"batch": [list(k2[0]), k2[1]], "first_written": tw, "acked": acked.get(k2), "end_written": nxt[0].t_written})
    # ---------------- non-triviality
    fault_mid = False
    for (t, f, seq) in c.fault_log:
        if isinstance(f, dict) and f.get("sel") in TXN_APIS:
            fault_mid = True
    replaced = bool(obs.killed) or bool(case.get("zombie"))
    with_offsets = any(t["offsets"] for t in obs.txns)
    out.nontrivial = bool(fault_mid or replaced or with_offsets)
    if fault_mid:
        out.label("fault_on_txn_request")
    if replaced:
        out.label("producer_replaced")
    if with_offsets:
        out.label("offsets_in_txn")
    for t in obs.txns:
        out.label("txn_" + t["klass"])
    if any(a.reply and a.api == "add_partitions" and any(p["error"] == 51 for r in a.reply["results"] for p in r["partitions"])
           for a in c.arrivals):
        out.label("concurrent_transactions_seen")
    out.info = {"txns": [(t["n"], t["klass"], len(t["sends"])) for t in obs.txns], "faults": len(c.fault_log),
                "killed": obs.killed, "vtime": round(obs.vtime, 2)}
    return out


def _reply_ok(a, tp):
    for r in (a.reply or {}).get("results", []):
        for p in r["partitions"]:
            if (r["topic"], p["partition"]) == tp:
                return p["error"] == 0
    return False


def _produce_ok(a, tp):
    for t in (a.reply or {}).get("topics", []):
        for p in t["partitions"]:
            if (t["name"], p["index"]) == tp:
                return p["error"] == 0
    return False


def execute(case):
    return evaluate(case, TS.run(case))


def txn_steps(draw, st, nparts, n_txn):
    steps = []
    for _ in range(n_txn):
        body = []
        ntasks = draw(st.integers(1, 2))
        subs = []
        for _ in range(ntasks):
            sub = []
            for _ in range(draw(st.integers(0, 6))):
                if draw(st.integers(0, 4)) == 0:
                    sub.append(["sleep", draw(st.sampled_from([0.0, 0.002, 0.02]))])
                sub.append(["send", draw(st.integers(0, nparts - 1)), draw(st.sampled_from([0, 30, 150])),
                            draw(st.integers(0, 3)) == 0])
            subs.append(sub)
        body.append(["par", subs] if ntasks > 1 else ["par", [subs[0]]])
        if draw(st.integers(0, 2)) == 0:
            offs = {str(draw(st.integers(0, 1))): draw(st.integers(0, 50))}
            if draw(st.booleans()):
                offs[str(2)] = draw(st.integers(0, 50))
            if draw(st.integers(0, 2)) == 0:
                # two tasks of the application report progress on the same group, the second while the first call is
                # still on its way (AddOffsetsToTxn / FindCoordinator / TxnOffsetCommit in flight)
                newer = {k: v + draw(st.integers(1, 9)) for k, v in offs.items()}
                body.append(["par", [[["offsets", offs, "g"]],
                                     [["sleep", draw(st.sampled_from([0.0, 0.001, 0.002, 0.004, 0.008, 0.02]))],
                                      ["offsets", newer, "g"]]]])
            else:
                body.append(["offsets", offs, "g"])
            if draw(st.booleans()):
                body.append(["send", draw(st.integers(0, nparts - 1)), 0, False])
        end = draw(st.sampled_from(["commit", "commit", "abort"]))
        if draw(st.integers(0, 3)) == 0:
            steps.append(["ctx_ok" if end == "commit" else "ctx_exc", body] +
                         (["base"] if end != "commit" and draw(st.booleans()) else []))
        else:
            if draw(st.integers(0, 4)) == 0:
                # the explicit batch API: builder made before or after begin_transaction(), sent inside the transaction
                mk = ["mkbatch", draw(st.integers(0, nparts - 1)), draw(st.integers(1, 3))]
                if draw(st.booleans()):
                    steps.append(mk)
                else:
                    body.insert(0, mk)
                body.insert(draw(st.integers(1, len(body))), ["send_batch"])
            steps.append(["begin"])
            steps.extend(body)
            if draw(st.integers(0, 2)) == 0:
                # a task that is still sending when the main task ends the transaction
                sub = [["sleep", draw(st.sampled_from([0.0, 0.0, 0.001, 0.003, 0.01, 0.03]))]]
                for _ in range(draw(st.integers(1, 3))):
                    sub.append(["send", draw(st.integers(0, nparts - 1)), draw(st.sampled_from([0, 150, 150])), False])
                # started before the body (its sends interleave with the body's and may be blocked on a full batch
                # when the end call is made) or right before the end call
                if draw(st.booleans()):
                    steps.insert(len(steps) - len(body), ["straggle", [sub]])
                else:
                    steps.append(["straggle", [sub]])
            steps.append([end])
        if draw(st.integers(0, 2)) == 0:
            steps.append(["sleep", draw(st.sampled_from([0.0, 0.01, 0.1]))])
    return steps


def strategy():
    from hypothesis import strategies as st

    @st.composite
    def cases(draw):
        nodes = draw(st.integers(1, 3))
        nparts = draw(st.integers(1, 3))
        cfg = {"request_timeout_ms": draw(st.sampled_from([300, 1000])), "retry_backoff_ms": draw(st.sampled_from([10, 50])),
               "max_batch_size": draw(st.sampled_from([150, 400])), "linger_ms": draw(st.sampled_from([0, 5]))}
        procs = [{"steps": txn_steps(draw, st, nparts, draw(st.integers(1, 4)))}]
        kills = []
        mode = draw(st.sampled_from(["plain", "plain", "plain", "kill", "zombie"]))
        if mode in ("kill", "zombie"):
            procs.append({"steps": txn_steps(draw, st, nparts, draw(st.integers(1, 2))),
                          "start_delay": draw(st.sampled_from([0.02, 0.06, 0.2, 0.6]))})
            if mode == "kill":
                kills.append({"proc": "p0", "after": draw(st.integers(3, 25))})
                procs[1]["start_delay"] = draw(st.sampled_from([0.3, 1.0, 3.0]))
        faults = []
        retri = {"init_pid": [14, 15, 16, 51], "add_partitions": [14, 15, 16, 51, 3], "add_offsets": [14, 15, 16, 51],
                 "txn_offset_commit": [14, 15, 16, 7, 3], "end_txn": [14, 15, 16, 51], "produce": [3, 5, 6, 7, 19],
                 "find_coordinator": [15], "metadata": [5]}
        for _ in range(draw(st.integers(0, 6))):
            sel = draw(st.sampled_from(sorted(retri)))
            act = draw(st.sampled_from(["error", "error", "drop", "apply_drop", "no_reply", "delay", "apply_error"]))
            if sel == "produce" and draw(st.integers(0, 3)) == 0:
                act = "error_first"
            code = draw(st.sampled_from(retri[sel]))
            if act == "apply_error":
                if sel == "produce":
                    code = 7
                elif sel in ("find_coordinator", "metadata"):
                    act = "error"
                else:
                    code = draw(st.sampled_from([14, 15, 16]))
            if sel == "metadata" and act == "error":
                act = "stale"
            faults.append({"sel": sel, "k": draw(st.integers(0, 4)), "act": act, "code": code,
                           "delay": draw(st.sampled_from([0.05, 0.4]))})
        env = []
        if nodes > 1:
            for _ in range(draw(st.integers(0, 2))):
                which = draw(st.integers(0, 2))
                if which == 0:
                    env.append({"at": draw(st.sampled_from([0.01, 0.05, 0.2, 0.8])), "ev": "move_txn_coord",
                                "to": draw(st.integers(0, nodes - 1))})
                elif which == 1:
                    # the consumer group's coordinator (target of TxnOffsetCommit) moves, keeping its state
                    env.append({"at": draw(st.sampled_from([0.01, 0.03, 0.05, 0.1, 0.2, 0.8])), "ev": "move_group_coord",
                                "to": draw(st.integers(0, nodes - 1)), "keep_state": True})
                else:
                    env.append({"at": draw(st.sampled_from([0.01, 0.05, 0.2, 0.8])), "ev": "move_leader", "topic": "t0",
                                "partition": draw(st.integers(0, nparts - 1)), "to": draw(st.integers(0, nodes - 1))})
        return {"cfg": cfg, "cluster": {"nodes": nodes, "partitions": nparts, "txn_coord": draw(st.integers(0, 2)),
                                        "group_coord": draw(st.integers(0, 2))},
                "procs": procs, "kills": kills, "zombie": mode == "zombie", "faults": faults, "env": env,
                "marker_delays": draw(st.lists(st.sampled_from([0.0, 0.0, 0.02, 0.15]), min_size=1, max_size=3)),
                "lat": draw(st.lists(st.sampled_from([0.0005, 0.001, 0.004, 0.015]), min_size=1, max_size=4)),
                "chunks": draw(st.lists(st.sampled_from([0, 0, 3, 40]), min_size=1, max_size=3)),
                "rng_seed": draw(st.integers(0, 2 ** 31)),
                "debug_log": draw(st.integers(0, 7)) == 0}
    return cases()


def campaigns(tier):
    th = tier == "thorough"
    return [Campaign("txn_sim", "hyp", execute=execute, strategy=strategy, examples=30000 if th else 6000,
                     setup=TS.setup, max_wall=900 if th else 100, shrink_wall=40)]
