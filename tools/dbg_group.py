#!/venv/bin/python
"""usage: tools/dbg_group.py <replay.json> : timeline of a group-simulation case."""
import sys, os, json
sys.path.insert(0, os.path.dirname(os.path.dirname(os.path.abspath(__file__))))
from vlib import stage; stage.activate(stage.stage())
import logging; logging.disable(logging.CRITICAL)
import importlib
from vlib.core import unjsonify, jsonify
rec = json.load(open(sys.argv[1])); case = unjsonify(rec["case"])
m = importlib.import_module("props." + rec["property"].lower())
import props._group_sim as GS
GS.setup()
print(json.dumps(rec["case"])[:2500])
obs = GS.run(case)
rows = []
for e in obs.events:
    if e["kind"] == "deliver" and "--deliver" not in sys.argv: continue
    rows.append((e["t"], 0, "EV   %-5s %-16s %s" % (e["member"], e["kind"], json.dumps(jsonify({k: v for k, v in e.items() if k not in ("seq", "t", "kind", "member", "value")}))[:200])))
for a in obs.cluster.arrivals:
    if a.api in ("api_versions", "metadata", "fetch", "list_offsets") and "--all" not in sys.argv: continue
    if a.api == "heartbeat" and "--hb" not in sys.argv: continue
    b = a.body; rep = a.reply or {}
    brief = {k: b[k] for k in ("generation", "member_id") if k in b}
    if a.api == "join": brief["protocols"] = [p["name"] for p in b["protocols"]]
    if a.api == "sync": brief["n_assign"] = len(b["assignments"])
    if a.api == "offset_commit": brief["offsets"] = a.extra.get("commit", {}).get("offsets")
    if a.api == "offset_fetch": brief["given"] = a.extra.get("offsets_given")
    r = {k: rep[k] for k in ("error", "generation", "member_id", "leader") if k in rep}
    if a.api == "offset_commit" and rep: r["errs"] = sorted({p["error"] for t in rep["topics"] for p in t["partitions"]})
    rows.append((a.t, 1, "REQ  %-5s %-16s n%d %s -> %s fault=%s end=%s" % (a.client_id, a.api + " v%d" % a.ver, a.node, json.dumps(brief), json.dumps(r), a.fault and (a.fault["act"], a.fault.get("code")), a.t_end and round(a.t_end, 4))))
for (t, f, seq) in obs.cluster.fault_log:
    if "ev" in f: rows.append((t, 2, "ENV  %s" % {k: v for k, v in f.items() if k != "fn"}))
g = obs.cluster.groups.groups.get("g")
if g:
    for (t, ev, mem, det) in g.events:
        rows.append((t, 3, "GRP  %-5s %-22s %s" % (mem, ev, det)))
rows.sort(key=lambda r: (r[0], r[1]))
lim = int(os.environ.get("ROWS", "400"))
for t, _, s in rows[:lim]: print("%9.4f %s" % (t, s[:260]))
print("windows", obs.windows, "killed", obs.killed, "hung", obs.hung, "deadlock", obs.deadlock)
out = m.evaluate(case, obs)
for f in out.failures: print("FAIL", f.sig, json.dumps(jsonify(f.detail))[:900])
