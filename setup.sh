#!/bin/sh
# setup_cmd: offline; make sure deps are importable and warm the build cache.
set -e
cd "$(dirname "$0")"
/venv/bin/python - <<'PY'
import sys, os
sys.path.insert(0, os.getcwd())
from vlib import deps, stage
deps.ensure()
print("stage plain:", stage.stage("plain"))
try:
    print("stage asan:", stage.stage("asan"))
except Exception as e:  # asan build is only needed by C10; it reports its own error
    print("asan stage failed:", e)
PY
