"""Core value types shared by all property modules."""
import hashlib
import json


def jsonify(x):
    """Canonical JSON-able form: bytes -> {"$b": hex}, tuples -> lists, sets sorted."""
    if isinstance(x, (bytes, bytearray, memoryview)):
        return {"$b": bytes(x).hex()}
    if isinstance(x, dict):
        return {str(k): jsonify(v) for k, v in x.items()}
    if isinstance(x, (list, tuple)):
        return [jsonify(v) for v in x]
    if isinstance(x, (set, frozenset)):
        return sorted((jsonify(v) for v in x), key=lambda v: json.dumps(v, sort_keys=True))
    if isinstance(x, float) and (x != x or x in (float("inf"), float("-inf"))):
        return repr(x)
    if x is None or isinstance(x, (bool, int, float, str)):
        return x
    if hasattr(x, "_asdict"):
        return jsonify(x._asdict())
    return repr(x)


def unjsonify(x):
    if isinstance(x, dict):
        if set(x.keys()) == {"$b"}:
            return bytes.fromhex(x["$b"])
        return {k: unjsonify(v) for k, v in x.items()}
    if isinstance(x, list):
        return [unjsonify(v) for v in x]
    return x


def canon(x):
    return json.dumps(jsonify(x), sort_keys=True, separators=(",", ":"))


def fingerprint(x):
    return hashlib.sha1(canon(x).encode()).hexdigest()[:16]


def clip(x, n=1500):
    """Shorten a JSON-able value for evidence samples."""
    s = canon(x)
    if len(s) <= n:
        return jsonify(x)
    return {"$clipped": s[:n] + "...", "$len": len(s)}


class Failure:
    """One violated oracle clause in one case."""

    __slots__ = ("clause", "site", "detail", "params")

    def __init__(self, clause, site="", detail=None, params=None):
        self.clause = clause
        self.site = site or ""
        self.detail = detail
        self.params = params or {}

    @property
    def sig(self):
        return "%s@%s" % (self.clause, self.site) if self.site else self.clause

    def to_json(self):
        return {"clause": self.clause, "site": self.site, "sig": self.sig,
                "detail": jsonify(self.detail), "params": jsonify(self.params)}


class Outcome:
    __slots__ = ("failures", "labels", "nontrivial", "info")

    def __init__(self):
        self.failures = []
        self.labels = set()
        self.nontrivial = False
        self.info = None

    def fail(self, clause, site="", detail=None, **params):
        self.failures.append(Failure(clause, site, detail, params))

    def label(self, *ls):
        self.labels.update(ls)


class HarnessError(Exception):
    """The verification machinery itself is broken (exit 2, never a violation)."""


class LibraryFault(Exception):
    """Raised deep inside a harness when the code under test does something that makes the case impossible to go
    on with (not a harness bug): the runner turns it into a failure of the given clause."""

    def __init__(self, clause, site, detail=None):
        Exception.__init__(self, "%s@%s" % (clause, site))
        self.clause, self.site, self.detail = clause, site, detail


def guarded(execute):
    """Wrap an execute(case) so that a LibraryFault becomes an Outcome with that failure."""
    def run(case):
        try:
            return execute(case)
        except LibraryFault as lf:
            out = Outcome()
            out.fail(lf.clause, lf.site, lf.detail or {})
            out.nontrivial = True
            return out
        except HarnessError:
            raise
        except Exception as e:
            # an exception that escapes from inside the library under test (innermost frame in the staged aiokafka
            # package) through a harness that did not expect it is the library's doing, not a harness error
            import os
            import traceback
            tb = traceback.extract_tb(e.__traceback__)
            stage = os.environ.get("VERIF_STAGE") or ""
            inner = tb[-1] if tb else None
            if inner is not None and stage and os.path.abspath(inner.filename).startswith(os.path.abspath(stage) + os.sep):
                out = Outcome()
                rel = os.path.relpath(inner.filename, stage)
                out.fail("unexpected_exception", "%s:%s:%s" % (type(e).__name__, rel, inner.name),
                         {"error": repr(e)[:300], "where": ["%s:%d %s" % (os.path.basename(f.filename), f.lineno, f.name) for f in tb[-5:]]})
                out.nontrivial = True
                return out
            raise
    run.__name__ = getattr(execute, "__name__", "execute")
    return run


import contextlib as _contextlib
import logging as _logging


@_contextlib.contextmanager
def debug_logging(on, name="aiokafka"):
    """Run the library with its loggers enabled for DEBUG (records end in a null handler, nothing is formatted or
    printed).  What the library does must not depend on whether somebody listens to its log."""
    if not on:
        yield
        return
    lg = _logging.getLogger(name)
    old = (lg.level, lg.propagate, _logging.root.manager.disable)
    h = _logging.NullHandler()
    lg.addHandler(h)
    lg.setLevel(_logging.DEBUG)
    lg.propagate = False
    _logging.disable(_logging.NOTSET)
    try:
        yield
    finally:
        lg.removeHandler(h)
        lg.setLevel(old[0])
        lg.propagate = old[1]
        _logging.disable(old[2])
