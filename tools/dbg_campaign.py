#!/venv/bin/python
"""Debug helper: run one campaign of a property in-process, printing slow/failing cases.
usage: tools/dbg_campaign.py C01 produce_sim <examples> <seed> [slow_s]"""
import sys, os, time, faulthandler
sys.path.insert(0, os.path.dirname(os.path.dirname(os.path.abspath(__file__))))
faulthandler.dump_traceback_later(int(os.environ.get("DBG_TIMEOUT", "120")), exit=True)
from vlib import stage; stage.activate(stage.stage())
import logging; logging.disable(logging.CRITICAL)
import importlib, json
from vlib import runner
from vlib.core import jsonify
prop, cname, nex, seed = sys.argv[1], sys.argv[2], int(sys.argv[3]), int(sys.argv[4])
slow = float(sys.argv[5]) if len(sys.argv) > 5 else 0.5
m = importlib.import_module("props." + prop.lower())
camp = [c for c in m.campaigns("quick") if c.name == cname][0]
if camp.setup: camp.setup()
import hypothesis
from hypothesis import given, settings, HealthCheck, Phase
n = [0]; sigs = {}
t = time.time()
@hypothesis.seed(seed)
@settings(max_examples=nex, database=None, deadline=None, suppress_health_check=list(HealthCheck), phases=[Phase.generate])
@given(camp.strategy())
def t1(case):
    t0 = time.time()
    case = runner._normalise(case)
    out = camp.execute(case)
    n[0] += 1
    dt = time.time() - t0
    for f in out.failures:
        if f.sig not in sigs:
            sigs[f.sig] = (case, f)
            print("NEW SIG", f.sig, json.dumps(jsonify(f.detail))[:600], flush=True)
            os.makedirs("/verif/out/dbg", exist_ok=True)
            json.dump({"property": prop, "campaign": cname, "case": jsonify(case), "sig": f.sig}, open("/verif/out/dbg/%s.json" % runner._sanitise(f.sig), "w"))
    if dt > slow: print("SLOW", n[0], round(dt, 2), out.info, flush=True)
t1()
print("done", n[0], round(time.time() - t, 1), "sigs", {k: 1 for k in sigs})
