"""C18 - SCRAM login proves the password and authenticates the server.

The real SCRAM authenticator of aiokafka.conn (created the way the connection creates
it, driven through its public ``step()`` with a synchronous stand-in for
``loop.run_in_executor``; no network, no event loop) talks to an independent RFC 5802
server model written here with hashlib/hmac/base64 only.

Oracle clauses
  server_accepts             client-first and client-final are well-formed RFC 5802
                             messages (gs2 header, saslname escaping, printable nonce,
                             c= is the base64 gs2 header, r= is the server's combined
                             nonce, p= last) and the proof verifies against the
                             StoredKey the model derives from the password with the salt
                             and iteration count the client was sent.
  rejects_bad_nonce          a server-first whose nonce does not start with the client's
                             nonce makes the client raise; no client-final is produced.
  completes_iff_server_knows the client finishes without exception iff the server-final
                             carries v=<ServerSignature derived from the real password,
                             the salt/iterations the client saw and the actual
                             transcript>; in every other case it raises.

Normalisation: like Kafka's broker (ScramFormatter.normalize == UTF-8 bytes) the model
uses the raw UTF-8 password; RFC 5802 only says SHOULD for SASLprep of the username
and no Kafka peer applies it, so it is not demanded.  Cases whose credentials SASLprep
would change are labelled so the histogram shows how many there are.
"""
import base64
import hashlib
import hmac
import inspect
import re
import stringprep
import types
import unicodedata

from vlib.core import HarnessError, LibraryFault, Outcome, debug_logging
from vlib.runner import Campaign

ID = "C18"
LEVEL = "exploration"
RULE = ("Cases: (username, password, salt 1..64 B, iterations 1..20000, SCRAM-SHA-256/512, server nonce "
        "part, server behaviour kind, tampering parameter k, alternative password/salt/iterations). "
        "Kinds: honest, honest_ext (optional extensions) and single-field tamperings of server-first "
        "(6 nonce kinds not extending the client's nonce; salt or iteration count changed while the "
        "signature comes from the untampered values) and of server-final (bit flip, truncation, "
        "extension, zeros, wrong password, wrong key label, echoed proof, client signature, stale "
        "transcript, missing v=, e= error). Enum campaign: every kind x both variants x 4 fixed "
        "credential profiles, incl. every single-bit flip and every truncation of the signature. "
        "Hypothesis campaigns draw credentials from escape-heavy, non-ASCII and arbitrary Unicode text. "
        "Non-trivial = username needs escaping (',' or '='), or a credential is non-ASCII, or the "
        "server behaviour is a tampering kind. Distinct = distinct case value.")
ASSUMPTIONS = [
    "reference RFC 5802 server model in props/c18.py (hashlib/hmac/base64 only), self-tested at import "
    "against the RFC 5802 (SHA-1) and RFC 7677 (SHA-256) example exchanges",
    "hashlib.pbkdf2_hmac/hmac of the standard library are correct (model uses a hand-written Hi() up to "
    "256 iterations, cross-checked against pbkdf2_hmac at import, and pbkdf2_hmac above)",
    "passwords are used as raw UTF-8 without SASLprep, as Kafka brokers do",
    "the authenticator is driven through step() with run_in_executor replaced by a synchronous call",
]

MECHS = {"SCRAM-SHA-256": "sha256", "SCRAM-SHA-512": "sha512"}

NONCE_KINDS = ["nonce_unrelated", "nonce_flip", "nonce_truncated", "nonce_suffix", "nonce_empty",
               "nonce_case"]
FIRST_KINDS = ["salt_changed", "iters_changed"]
FINAL_KINDS = ["sig_bitflip", "sig_truncated", "sig_extended", "sig_zero", "sig_wrong_password",
               "sig_wrong_key_label", "sig_echo_proof", "sig_client_signature", "sig_stale_transcript",
               "final_missing_v", "final_error"]
HONEST_KINDS = ["honest", "honest_ext"]
TAMPER_KINDS = NONCE_KINDS + FIRST_KINDS + FINAL_KINDS

SERVER_ERRORS = ["invalid-encoding", "extensions-not-supported", "invalid-proof",
                 "channel-bindings-dont-match", "server-does-support-channel-binding",
                 "channel-binding-not-supported", "unsupported-channel-binding-type", "unknown-user",
                 "invalid-username-encoding", "no-resources", "other-error"]


# --------------------------------------------------------------------------------------
# Reference model (RFC 5802), independent of aiokafka
# --------------------------------------------------------------------------------------

def _H(hname, data):
    return hashlib.new(hname, data).digest()


def _HMAC(hname, key, msg):
    return hmac.new(key, msg, hname).digest()


def _hi_manual(hname, pw, salt, i):
    """Hi(str, salt, i) of RFC 5802 section 2.2, written out."""
    mac0 = hmac.new(pw, digestmod=hname)
    m = mac0.copy()
    m.update(salt + b"\x00\x00\x00\x01")
    u = m.digest()
    acc = int.from_bytes(u, "big")
    for _ in range(i - 1):
        m = mac0.copy()
        m.update(u)
        u = m.digest()
        acc ^= int.from_bytes(u, "big")
    return acc.to_bytes(len(u), "big")


def ref_hi(hname, pw, salt, i):
    if i <= 256:
        return _hi_manual(hname, pw, salt, i)
    return hashlib.pbkdf2_hmac(hname, pw, salt, i)


def _xor(a, b):
    assert len(a) == len(b)
    return bytes(x ^ y for x, y in zip(a, b))


class Account:
    """What a server stores for a user: salt, iteration count, StoredKey, ServerKey."""

    def __init__(self, hname, password, salt, iters, client_label=b"Client Key",
                 server_label=b"Server Key"):
        self.hname = hname
        self.salt = salt
        self.iters = iters
        salted = ref_hi(hname, password.encode("utf-8"), salt, iters)
        self.client_key = _HMAC(hname, salted, client_label)
        self.stored_key = _H(hname, self.client_key)
        self.server_key = _HMAC(hname, salted, server_label)


class Reject(Exception):
    def __init__(self, site, why):
        Exception.__init__(self, why)
        self.site = site
        self.why = why


_PRINTABLE = re.compile(r"\A[\x21-\x2b\x2d-\x7e]+\Z")
_ATTR = re.compile(r"\A[A-Za-z]=[^\x00,]*\Z")


def _decode_saslname(v, site):
    if v == "":
        raise Reject(site, "empty saslname")
    if "\x00" in v:
        raise Reject(site, "NUL in saslname")
    out = []
    i = 0
    while i < len(v):
        ch = v[i]
        if ch == "=":
            esc = v[i:i + 3]
            if esc == "=2C":
                out.append(",")
            elif esc == "=3D":
                out.append("=")
            else:
                raise Reject(site, "'=' not followed by 2C or 3D in saslname %r" % v)
            i += 3
        else:
            out.append(ch)
            i += 1
    return "".join(out)


def server_parse_client_first(msg, username):
    """RFC 5802 section 7: client-first-message = gs2-header client-first-message-bare.
    Returns (gs2_header, client_first_bare, client_nonce)."""
    if not isinstance(msg, (bytes, bytearray)):
        raise Reject("client_first:type", "payload is %s, not bytes" % type(msg).__name__)
    try:
        text = bytes(msg).decode("utf-8")
    except UnicodeDecodeError as e:
        raise Reject("client_first:utf8", str(e))
    m = re.match(r"\A(n|y|p=[^,]*),(a=[^,]*)?,", text)
    if not m:
        raise Reject("client_first:gs2_header", "no gs2 header in %r" % text[:40])
    if m.group(1).startswith("p"):
        raise Reject("client_first:gs2_header", "channel binding requested; server has none")
    if m.group(2) is not None:
        _decode_saslname(m.group(2)[2:], "client_first:authzid")
    gs2 = m.group(0)
    bare = text[len(gs2):]
    attrs = bare.split(",")
    if attrs[0].startswith("m="):
        raise Reject("client_first:mext", "mandatory extension present")
    if not attrs[0].startswith("n="):
        raise Reject("client_first:order", "first attribute of bare message is %r, not n=" % attrs[0][:20])
    if len(attrs) < 2 or not attrs[1].startswith("r="):
        # an unescaped ',' in the username shows up here
        raise Reject("client_first:username_escape" if len(attrs) >= 2 else "client_first:order",
                     "attribute after n= is %r, not r=" % (attrs[1][:20] if len(attrs) > 1 else None))
    name = _decode_saslname(attrs[0][2:], "client_first:username_escape")
    if name != username:
        raise Reject("client_first:username", "decoded username %r is not the account %r" % (name, username))
    cnonce = attrs[1][2:]
    if not _PRINTABLE.match(cnonce):
        raise Reject("client_first:nonce", "nonce %r is not 1*printable" % cnonce)
    for ext in attrs[2:]:
        if not _ATTR.match(ext):
            raise Reject("client_first:extensions", "bad extension %r" % ext[:20])
        if ext[0] == "m":
            raise Reject("client_first:mext", "mandatory extension present")
    return gs2, bare, cnonce


def _b64_strict(s, site):
    try:
        return base64.b64decode(s.encode("ascii"), validate=True)
    except Exception as e:
        raise Reject(site, "not base64: %r (%s)" % (s[:80], e))


def server_verify_client_final(msg, account, gs2, bare, server_first, full_nonce):
    """Returns (auth_message bytes, client proof bytes); raises Reject."""
    if not isinstance(msg, (bytes, bytearray)):
        raise Reject("client_final:type", "payload is %s, not bytes" % type(msg).__name__)
    try:
        text = bytes(msg).decode("utf-8")
    except UnicodeDecodeError as e:
        raise Reject("client_final:utf8", str(e))
    attrs = text.split(",")
    if len(attrs) < 3:
        raise Reject("client_final:order", "expected c=,r=,p= got %r" % text[:60])
    if not attrs[0].startswith("c="):
        raise Reject("client_final:order", "first attribute is %r, not c=" % attrs[0][:20])
    cb = _b64_strict(attrs[0][2:], "client_final:channel_binding")
    if cb != gs2.encode("utf-8"):
        raise Reject("client_final:channel_binding", "c= decodes to %r, gs2 header was %r" % (cb, gs2))
    if not attrs[1].startswith("r="):
        raise Reject("client_final:order", "second attribute is %r, not r=" % attrs[1][:20])
    if attrs[1][2:] != full_nonce:
        raise Reject("client_final:nonce", "r=%r is not the server's nonce %r" % (attrs[1][2:], full_nonce))
    if not attrs[-1].startswith("p="):
        raise Reject("client_final:order", "last attribute is %r, not p=" % attrs[-1][:20])
    for ext in attrs[2:-1]:
        if not _ATTR.match(ext) or ext[0] == "m":
            raise Reject("client_final:extensions", "bad extension %r" % ext[:20])
    proof = _b64_strict(attrs[-1][2:], "client_final:proof_encoding")
    hlen = hashlib.new(account.hname).digest_size
    if len(proof) != hlen:
        raise Reject("client_final:proof_encoding", "proof has %d bytes, hash has %d" % (len(proof), hlen))
    without_proof = ",".join(attrs[:-1])
    auth_message = (bare + "," + server_first + "," + without_proof).encode("utf-8")
    client_sig = _HMAC(account.hname, account.stored_key, auth_message)
    client_key = _xor(proof, client_sig)
    if not hmac.compare_digest(_H(account.hname, client_key), account.stored_key):
        raise Reject("client_final:proof", "H(proof XOR ClientSignature) != StoredKey")
    return auth_message, proof


def server_signature(account, auth_message):
    return _HMAC(account.hname, account.server_key, auth_message)


def _b64(b):
    return base64.b64encode(b).decode("ascii")


def make_server_first(full_nonce, salt, iters, ext=""):
    return "r=%s,s=%s,i=%d%s" % (full_nonce, _b64(salt), iters, ext)


def _selftest():
    # Hi against pbkdf2
    for hn in ("sha1", "sha256", "sha512"):
        for pw, salt, i in ((b"pencil", b"\x01", 1), (b"", b"salt", 2), (b"p" * 200, bytes(range(64)), 300)):
            assert _hi_manual(hn, pw, salt, i) == hashlib.pbkdf2_hmac(hn, pw, salt, i), "Hi self-test"
    vectors = [
        ("sha1", "user", "pencil", "fyko+d2lbbFgONRv9qkxdawL", "3rfcNHYJY1ZVvWVs7j", "QSXCR+Q6sek8bf92", 4096,
         "c=biws,r=fyko+d2lbbFgONRv9qkxdawL3rfcNHYJY1ZVvWVs7j,p=v0X8v3Bz2T0CJGbJQyF0X+HI4Ts=",
         "rmF9pqV8S7suAoZWja4dJRkFsKQ="),
        ("sha256", "user", "pencil", "rOprNGfwEbeRWgbNEkqO", "%hvYDpWUa2RaTCAfuxFIlj)hNlF$k0",
         "W22ZaJ0SNY7soEsUEjb6gQ==", 4096,
         "c=biws,r=rOprNGfwEbeRWgbNEkqO%hvYDpWUa2RaTCAfuxFIlj)hNlF$k0,"
         "p=dHzbZapWIk4jUhN+Ute9ytag9zjfMHgsqmmiz7AndVQ=",
         "6rriTRBi23WpRR/wtup+mMhUZUn/dB5nLTJRsjl95G4="),
    ]
    for hn, user, pw, cn, sn, salt64, it, cfinal, v in vectors:
        acct = Account(hn, pw, base64.b64decode(salt64), it)
        gs2, bare, cnonce = server_parse_client_first(("n,,n=%s,r=%s" % (user, cn)).encode(), user)
        assert (gs2, cnonce) == ("n,,", cn)
        sf = make_server_first(cn + sn, acct.salt, it)
        am, _ = server_verify_client_final(cfinal.encode(), acct, gs2, bare, sf, cn + sn)
        assert _b64(server_signature(acct, am)) == v, "RFC vector self-test (%s)" % hn
        bad = cfinal[:-6] + ("A" if cfinal[-6] != "A" else "B") + cfinal[-5:]
        try:
            server_verify_client_final(bad.encode(), acct, gs2, bare, sf, cn + sn)
        except Reject as r:
            assert r.site == "client_final:proof"
        else:
            raise AssertionError("model accepted a wrong proof")
    assert _decode_saslname("a=2Cb=3D=3D2C", "x") == "a,b==2C"
    for bad in ("a=2c", "=", "a=", "a=3", "a=41"):
        try:
            _decode_saslname(bad, "x")
        except Reject:
            pass
        else:
            raise AssertionError("model accepted saslname %r" % bad)


_selftest()


# --------------------------------------------------------------------------------------
# Driving the real authenticator
# --------------------------------------------------------------------------------------

class _Done:
    def __init__(self, value=None, exc=None):
        self.value = value
        self.exc = exc


class _SyncLoop:
    """Stand-in for the event loop: run_in_executor runs the function right away."""

    def run_in_executor(self, executor, fn, *args):
        try:
            return _Done(value=fn(*args))
        except BaseException as e:   # delivered to the awaiting caller by a real loop
            return _Done(exc=e)


def _step(auth, payload):
    """One authenticator.step(payload) as AIOKafkaConnection._do_sasl_handshake awaits it."""
    r = auth.step(payload)
    if inspect.iscoroutine(r):
        try:
            r.send(None)
        except StopIteration as s:
            r = s.value
        else:
            r.close()
            raise HarnessError("authenticator.step() suspended on something other than the executor")
        if not isinstance(r, _Done):
            return r
    if not isinstance(r, _Done):
        raise LibraryFault("server_accepts", "step:returned_unexpected_object", {"got": repr(r)[:200]})
    if r.exc is not None:
        raise r.exc
    return r.value


def _new_authenticator(user, pw, mech):
    from aiokafka.conn import AIOKafkaConnection
    stub = types.SimpleNamespace(_loop=_SyncLoop(), _sasl_plain_username=user, _sasl_plain_password=pw,
                                 _sasl_mechanism=mech)
    return AIOKafkaConnection.authenticator_scram(stub)


def _err(e):
    return "%s: %s" % (type(e).__name__, str(e)[:200])


# --------------------------------------------------------------------------------------
# Labels
# --------------------------------------------------------------------------------------

def _saslprep_sensitive(s):
    """Would SASLprep (RFC 4013) map, normalise or prohibit anything in s? (label only)"""
    if s.isascii():
        return any(ord(c) < 0x20 or ord(c) == 0x7f for c in s)
    for c in s:
        if stringprep.in_table_b1(c) or stringprep.in_table_c12(c):
            return True
        if (stringprep.in_table_c21_c22(c) or stringprep.in_table_c3(c) or stringprep.in_table_c4(c)
                or stringprep.in_table_c5(c) or stringprep.in_table_c6(c) or stringprep.in_table_c7(c)
                or stringprep.in_table_c8(c) or stringprep.in_table_c9(c) or stringprep.in_table_a1(c)):
            return True
    return unicodedata.normalize("NFKC", s) != s


def _bucket(prefix, n, edges):
    lo = None
    for e in edges:
        if n <= e:
            return "%s_%s" % (prefix, e if lo is None or lo + 1 == e else "%d_%d" % (lo + 1, e))
        lo = e
    return "%s_gt%d" % (prefix, edges[-1])


def _labels(out, case, hname):
    user, pw = case["user"], case["pw"]
    out.label("mech_" + hname, "kind:" + case["kind"])
    esc = False
    if "," in user:
        out.label("user_has_comma")
        esc = True
    if "=" in user:
        out.label("user_has_equals")
        esc = True
    if "=2C" in user or "=3D" in user:
        out.label("user_has_literal_escape_text")
    nonascii = False
    if not user.isascii():
        out.label("user_nonascii")
        nonascii = True
    if not pw.isascii():
        out.label("pw_nonascii")
        nonascii = True
    if _saslprep_sensitive(user):
        out.label("user_saslprep_sensitive")
    if _saslprep_sensitive(pw):
        out.label("pw_saslprep_sensitive")
    if len(pw.encode("utf-8")) > hashlib.new(hname).block_size:
        out.label("pw_longer_than_hmac_block")
    out.label(_bucket("salt_len", len(case["salt"]), [1, 15, 16, 63, 64]))
    out.label(_bucket("iters", case["iters"], [1, 64, 1024, 4095, 4096, 20000]))
    if "=" in case["snonce"]:
        out.label("snonce_has_equals")
    tamper = case["kind"] not in HONEST_KINDS
    out.label("tampered" if tamper else "honest_server")
    if esc:
        out.label("user_needs_escaping")
    out.nontrivial = bool(esc or nonascii or tamper)


# --------------------------------------------------------------------------------------
# execute
# --------------------------------------------------------------------------------------

def _bad_nonce(kind, cnonce, snonce, k):
    """A server nonce that does NOT start with the client nonce."""
    if kind == "nonce_unrelated":
        n = snonce
    elif kind == "nonce_flip":
        i = k % len(cnonce)
        c = cnonce[i]
        repl = "0" if c != "0" else "1"
        n = cnonce[:i] + repl + cnonce[i + 1:] + snonce
    elif kind == "nonce_truncated":
        cut = 1 + k % len(cnonce)
        head = cnonce[:-cut]
        tail = snonce
        # make sure the server part does not happen to restore the removed characters
        if (head + tail).startswith(cnonce):
            tail = ("0" if cnonce[len(head)] != "0" else "1") + tail
        n = head + tail
    elif kind == "nonce_suffix":
        n = snonce + cnonce
    elif kind == "nonce_empty":
        n = ""
    elif kind == "nonce_case":
        n = cnonce.swapcase() + snonce
    else:
        raise HarnessError("unknown nonce kind %r" % kind)
    if n.startswith(cnonce):
        # e.g. an all-digit nonce under swapcase, or a server part repeating the client nonce
        n = ("0" if cnonce[0] != "0" else "1") + cnonce[1:] + snonce
    if n.startswith(cnonce):
        raise HarnessError("could not build a non-extending nonce")
    return n


def execute(case):
    out = Outcome()
    mech = case["mech"]
    hname = MECHS[mech]
    hlen = hashlib.new(hname).digest_size
    user, pw, salt, iters = case["user"], case["pw"], case["salt"], case["iters"]
    kind, k, snonce = case["kind"], case["k"], case["snonce"]
    _labels(out, case, hname)
    ctx = {"kind": kind, "mech": mech, "user": user, "salt_len": len(salt), "iters": iters}

    # ---- client-first --------------------------------------------------------------
    try:
        auth = _new_authenticator(user, pw, mech)
        r1 = _step(auth, None)
    except HarnessError:
        raise
    except Exception as e:
        out.fail("server_accepts", "client_first:raises", dict(ctx, error=_err(e)))
        return out
    if not (isinstance(r1, (tuple, list)) and len(r1) == 2):
        out.fail("server_accepts", "client_first:type", dict(ctx, got=repr(r1)[:200]))
        return out
    client_first = r1[0]
    try:
        gs2, bare, cnonce = server_parse_client_first(client_first, user)
    except Reject as rj:
        out.fail("server_accepts", rj.site, dict(ctx, client_first=client_first, why=rj.why))
        return out

    # ---- server-first --------------------------------------------------------------
    seen_salt, seen_iters = salt, iters
    ext = ""
    if kind in NONCE_KINDS:
        full_nonce = _bad_nonce(kind, cnonce, snonce, k)
    else:
        full_nonce = cnonce + snonce
    if kind == "salt_changed":
        seen_salt = case["alt_salt"]
    elif kind == "iters_changed":
        seen_iters = case["alt_iters"]
    elif kind == "honest_ext":
        ext = ",x=opt" if k % 2 == 0 else ",x=a=b,y="
    server_first = make_server_first(full_nonce, seen_salt, seen_iters, ext)
    original_server_first = make_server_first(full_nonce, salt, iters, ext)

    try:
        r2 = _step(auth, server_first.encode("utf-8"))
        raised2 = None
    except HarnessError:
        raise
    except Exception as e:
        r2, raised2 = None, e

    if kind in NONCE_KINDS:
        if raised2 is None:
            out.fail("rejects_bad_nonce", "completed" if r2 is None else "sent_client_final",
                     dict(ctx, client_nonce=cnonce, server_nonce=full_nonce,
                          client_final=r2[0] if isinstance(r2, (tuple, list)) and r2 else None))
        out.info = {"client_first": client_first, "server_first": server_first,
                    "client": _err(raised2) if raised2 else "no exception"}
        return out

    if raised2 is not None:
        out.fail("server_accepts", "client_final:raises",
                 dict(ctx, server_first=server_first, error=_err(raised2)))
        return out
    if not (isinstance(r2, (tuple, list)) and len(r2) == 2):
        out.fail("server_accepts", "client_final:type", dict(ctx, server_first=server_first, got=repr(r2)[:200]))
        return out
    client_final = r2[0]

    # the account as a server that knows the password holds it for the parameters the client saw
    seen_account = Account(hname, pw, seen_salt, seen_iters)
    try:
        auth_message, proof = server_verify_client_final(client_final, seen_account, gs2, bare,
                                                         server_first, full_nonce)
    except Reject as rj:
        out.fail("server_accepts", rj.site,
                 dict(ctx, client_first=client_first, server_first=server_first,
                      client_final=client_final, why=rj.why))
        return out
    expected_sig = server_signature(seen_account, auth_message)

    # ---- server-final --------------------------------------------------------------
    sent_sig = None        # bytes carried in v=, or None when the message has no v=
    if kind in HONEST_KINDS:
        sent_sig = expected_sig
    elif kind in ("salt_changed", "iters_changed"):
        # the server's credentials are for (salt, iters); what the client saw was changed on the way
        real = Account(hname, pw, salt, iters)
        if k % 2 == 0:
            sent_sig = server_signature(real, auth_message)
        else:
            cf_wo_proof = bytes(client_final).decode("utf-8").rsplit(",p=", 1)[0]
            sent_sig = server_signature(real, (bare + "," + original_server_first + "," + cf_wo_proof).encode("utf-8"))
    elif kind == "sig_bitflip":
        bit = k % (8 * hlen)
        b = bytearray(expected_sig)
        b[bit // 8] ^= 0x80 >> (bit % 8)
        sent_sig = bytes(b)
    elif kind == "sig_truncated":
        cut = 1 + k % hlen
        sent_sig = expected_sig[:-cut] if (k // hlen) % 2 == 0 else expected_sig[cut:]
    elif kind == "sig_extended":
        extra = bytes([(k >> 2) & 0xFF] * (1 + k % 4))
        sent_sig = expected_sig + extra if (k >> 10) % 2 == 0 else extra + expected_sig
    elif kind == "sig_zero":
        sent_sig = bytes(hlen)
    elif kind == "sig_wrong_password":
        sent_sig = server_signature(Account(hname, case["alt_pw"], seen_salt, seen_iters), auth_message)
    elif kind == "sig_wrong_key_label":
        # a peer that only holds the client-side key material
        sent_sig = _HMAC(hname, seen_account.client_key, auth_message)
    elif kind == "sig_echo_proof":
        sent_sig = proof
    elif kind == "sig_client_signature":
        sent_sig = _HMAC(hname, seen_account.stored_key, auth_message)
    elif kind == "sig_stale_transcript":
        # a signature recorded from another login of the same user (different server nonce)
        other = "Z" if not snonce.startswith("Z") else "Y"
        stale = auth_message.replace((cnonce + snonce).encode(), (cnonce + other + snonce[1:]).encode())
        sent_sig = server_signature(seen_account, stale)
    elif kind in ("final_missing_v", "final_error"):
        sent_sig = None
    else:
        raise HarnessError("unknown kind %r" % kind)

    if kind == "final_missing_v":
        server_final = [b"", b"x=abc", b"v", b"p=" + _b64(proof).encode()][k % 4]
    elif kind == "final_error":
        server_final = ("e=" + SERVER_ERRORS[k % len(SERVER_ERRORS)]).encode()
    else:
        server_final = ("v=" + _b64(sent_sig)).encode()
        if kind == "honest_ext":
            server_final += b",x=opt" if k % 2 == 0 else b",y=,x=a=b"

    server_knows = sent_sig is not None and sent_sig == expected_sig
    out.label("server_knows" if server_knows else "server_does_not_know")

    try:
        r3 = _step(auth, server_final)
        raised3 = None
    except HarnessError:
        raise
    except Exception as e:
        r3, raised3 = None, e
    completed = raised3 is None and r3 is None

    detail = dict(ctx, client_first=client_first, server_first=server_first, client_final=client_final,
                  server_final=server_final, expected_v=_b64(expected_sig),
                  client=_err(raised3) if raised3 else ("completed" if completed else "sent %r" % (r3,)))
    if server_knows:
        if not completed:
            out.fail("completes_iff_server_knows", "honest_rejected:" + kind, detail)
    else:
        if raised3 is None:
            out.fail("completes_iff_server_knows", "accepted:" + kind, detail)
    out.info = {"client_first": client_first, "server_first": server_first, "client_final": client_final,
                "server_final": server_final, "client": detail["client"]}
    return out


# --------------------------------------------------------------------------------------
# Case generation
# --------------------------------------------------------------------------------------

_PROFILES = [
    # RFC 7677 credentials
    dict(user="user", pw="pencil", salt=base64.b64decode("W22ZaJ0SNY7soEsUEjb6gQ=="), iters=4096,
         snonce="%hvYDpWUa2RaTCAfuxFIlj)hNlF$k0"),
    dict(user="a,b=c=2C", pw="p,=ä", salt=b"\x00", iters=1, snonce="s"),
    dict(user="用户=3D,é", pw="парольª\U0001F600",
         salt=bytes(range(191, 255)), iters=37, snonce="=r=+xyz=="),
    dict(user="=", pw="x" * 150, salt=bytes(range(33)), iters=20000, snonce="3rfcNHYJY1ZVvWVs7j"),
]


# --------------------------------------------------------------------------------------
# The connection-level handshake loop (AIOKafkaConnection._do_sasl_handshake) and replays
# --------------------------------------------------------------------------------------

class _Ready:
    """Awaitable that is already done (what run_in_executor / send return in the stub connection)."""

    def __init__(self, value=None, exc=None):
        self.value, self.exc = value, exc

    def __await__(self):
        if self.exc is not None:
            raise self.exc
        return self.value
        yield  # pragma: no cover


class _ReadyLoop:
    def run_in_executor(self, executor, fn, *args):
        try:
            return _Ready(fn(*args))
        except BaseException as e:
            return _Ready(exc=e)


HS_KINDS = ["hs_honest", "hs_wrong_sig", "hs_empty_final", "hs_empty_first", "hs_none_final", "hs_error_reply",
            "hs_garbage_final", "hs_replay"]


def _run_handshake(case, server):
    """Runs the real _do_sasl_handshake coroutine on a stub connection whose send()/_send_sasl_token() are
    answered by `server(payload) -> bytes | None | ('error', code, msg)`.  -> (completed, exception)"""
    from aiokafka.conn import AIOKafkaConnection
    v1 = case["k"] % 2 == 0          # SaslAuthenticateRequest framing vs raw tokens

    class Conn:
        _do_sasl_handshake = AIOKafkaConnection._do_sasl_handshake
        authenticator_scram = AIOKafkaConnection.authenticator_scram

        def __init__(self):
            self._loop = _ReadyLoop()
            self._sasl_mechanism = case["mech"]
            self._security_protocol = "SASL_PLAINTEXT"
            self._sasl_plain_username = case["user"]
            self._sasl_plain_password = case["pw"]
            self.closed = None
            self.sasl_principal = None

        def close(self, reason=None, exc=None):
            self.closed = (reason, exc)

        def send(self, request):
            name = type(request).__name__
            if "HandShake" in name:
                return _Ready(types.SimpleNamespace(error_code=0, enabled_mechanisms=[case["mech"]],
                                                    API_VERSION=1 if v1 else 0))
            payload = getattr(request, "_payload", None)
            if payload is None:
                payload = getattr(request, "payload", None)
            ans = server(payload)
            if isinstance(ans, tuple):
                return _Ready(types.SimpleNamespace(error_code=ans[1], error_message=ans[2], sasl_auth_bytes=b""))
            return _Ready(types.SimpleNamespace(error_code=0, error_message=None, sasl_auth_bytes=ans))

        def _send_sasl_token(self, payload, expect_response=True):
            ans = server(payload)
            if isinstance(ans, tuple):
                return _Ready(exc=ConnectionError("broker closed the connection: %s" % (ans[2],)))
            return _Ready(ans)

    conn = Conn()
    coro = conn._do_sasl_handshake()
    try:
        with debug_logging((case["k"] >> 1) & 1):      # every other login runs with DEBUG logging switched on
            coro.send(None)
    except StopIteration:
        return True, None, conn
    except HarnessError:
        raise
    except Exception as e:
        return False, e, conn
    coro.close()
    raise HarnessError("_do_sasl_handshake suspended on something the stub connection does not provide")


def execute_handshake(case):
    out = Outcome()
    mech = case["mech"]
    hname = MECHS[mech]
    user, pw, salt, iters, kind, snonce = case["user"], case["pw"], case["salt"], case["iters"], case["kind"], case["snonce"]
    out.label("handshake_loop", kind, mech)
    if (case["k"] >> 1) & 1:
        out.label("debug_logging_on")
    out.nontrivial = kind != "hs_honest"
    account = Account(hname, pw, salt, iters)
    ctx = {"kind": kind, "mech": mech, "framing": "SaslAuthenticate" if case["k"] % 2 == 0 else "raw token"}
    st = {"n": 0, "rejected": None, "transcript": []}

    def honest_server(payload, tamper=None):
        st["n"] += 1
        try:
            if st["n"] == 1:
                gs2, bare, cnonce = server_parse_client_first(payload, user)
                st.update(gs2=gs2, bare=bare, cnonce=cnonce, full=cnonce + snonce)
                st["server_first"] = make_server_first(st["full"], salt, iters)
                ans = st["server_first"].encode("utf-8")
                if tamper == "hs_empty_first":
                    ans = b""
            elif st["n"] == 2:
                auth_message, _ = server_verify_client_final(payload, account, st["gs2"], st["bare"], st["server_first"], st["full"])
                sig = server_signature(account, auth_message)
                ans = ("v=" + _b64(sig)).encode("utf-8")
                if tamper == "hs_wrong_sig":
                    ans = ("v=" + _b64(bytes([sig[0] ^ 1]) + sig[1:])).encode("utf-8")
                elif tamper == "hs_empty_final":
                    ans = b""
                elif tamper == "hs_none_final":
                    ans = None
                elif tamper == "hs_garbage_final":
                    ans = b"x=" + _b64(sig).encode("ascii")
                elif tamper == "hs_error_reply":
                    ans = ("error", 58, "Authentication failed")
            else:
                ans = b""
        except Reject as rj:
            st["rejected"] = (rj.site, rj.why)
            ans = ("error", 58, rj.why)
        st["transcript"].append(ans)
        return ans

    if kind == "hs_replay":
        # an honest login is recorded; a party that does not know the password then answers a NEW login of the same
        # user by replaying the recorded server messages verbatim
        ok, exc, _ = _run_handshake(case, honest_server)
        if not ok:
            out.fail("server_accepts", "handshake_loop:honest_login_failed", dict(ctx, error=_err(exc), rejected=st["rejected"]))
            return out
        recorded = list(st["transcript"])
        first_nonce = st["cnonce"]
        st2 = {"n": 0, "cnonce": None}

        def replay_server(payload):
            st2["n"] += 1
            if st2["n"] == 1:
                try:
                    st2["cnonce"] = server_parse_client_first(payload, user)[2]
                except Reject:
                    pass
            return recorded[st2["n"] - 1] if st2["n"] <= len(recorded) else b""
        ok2, exc2, _ = _run_handshake(case, replay_server)
        if st2["cnonce"] is not None and st2["cnonce"] == first_nonce:
            out.fail("completes_iff_server_knows", "handshake_loop:client_nonce_reused", dict(ctx, nonce=first_nonce))
        if ok2:
            out.fail("completes_iff_server_knows", "handshake_loop:accepted:replayed_server_messages", ctx)
        return out

    tamper = None if kind == "hs_honest" else kind
    ok, exc, conn = _run_handshake(case, lambda payload: honest_server(payload, tamper))
    if kind == "hs_honest":
        if not ok:
            out.fail("server_accepts", "handshake_loop:honest_login_failed", dict(ctx, error=_err(exc), rejected=st["rejected"]))
    elif ok:
        out.fail("completes_iff_server_knows", "handshake_loop:accepted:" + kind[3:], dict(ctx, server_messages=st["n"]))
    out.info = {"completed": ok, "error": _err(exc) if exc else None, "server_messages": st["n"]}
    return out


def _strat_handshake():
    return _strat(HS_KINDS)


def _alt_salts(salt):
    flipped = bytes([salt[0] ^ 1]) + salt[1:]
    return [flipped, salt + b"\x00", salt[::-1] + b"!" if len(salt) < 64 else salt[1:]]


def _enum_cases():
    for mech in MECHS:
        hlen = hashlib.new(MECHS[mech]).digest_size
        for pi, prof in enumerate(_PROFILES):
            heavy = prof["iters"] > 5000
            full = pi in (0, 1)

            def mk(kind, k=0, **kw):
                c = dict(prof, mech=mech, kind=kind, k=k, alt_pw=prof["pw"] + "x",
                         alt_salt=_alt_salts(prof["salt"])[0], alt_iters=prof["iters"] + 1)
                c.update(kw)
                return c

            yield mk("honest")
            yield mk("honest_ext", 0)
            yield mk("honest_ext", 1)
            for kind in NONCE_KINDS:
                if kind in ("nonce_flip", "nonce_truncated"):
                    for k in range(32):      # the client nonce is 32 characters today
                        yield mk(kind, k)
                else:
                    yield mk(kind)
            for k in (0, 1):
                for s in _alt_salts(prof["salt"]):
                    yield mk("salt_changed", k, alt_salt=s)
                alts = {prof["iters"] + 1, max(1, prof["iters"] - 1), min(20000, prof["iters"] * 2)}
                alts.discard(prof["iters"])
                for it in sorted(alts):
                    yield mk("iters_changed", k, alt_iters=it)
            if heavy:
                bits = [0, 7, 8 * hlen - 1]
                cuts = [0, hlen - 1, hlen, 2 * hlen - 1]
            elif full:
                bits = range(8 * hlen)
                cuts = range(2 * hlen)
            else:
                bits = list(range(0, 8 * hlen, 13)) + [8 * hlen - 1]
                cuts = [0, 1, hlen - 2, hlen - 1, hlen, hlen + 1, 2 * hlen - 1]
            for b in bits:
                yield mk("sig_bitflip", b)
            for c in cuts:
                yield mk("sig_truncated", c)
            for k in (0, 1, 2, 3, 1024, 1027, 4 * 255 + 1):
                yield mk("sig_extended", k)
            yield mk("sig_zero")
            for alt in (prof["pw"] + "x", prof["pw"][:-1] + "é", prof["pw"].swapcase() + " ", prof["user"]):
                if alt != prof["pw"]:
                    yield mk("sig_wrong_password", 0, alt_pw=alt)
            yield mk("sig_wrong_key_label")
            yield mk("sig_echo_proof")
            yield mk("sig_client_signature")
            yield mk("sig_stale_transcript")
            for k in range(4):
                yield mk("final_missing_v", k)
            for k in range(len(SERVER_ERRORS)):
                yield mk("final_error", k)


def _enum(shard, nshards):
    for i, c in enumerate(_enum_cases()):
        if i % nshards == shard:
            yield c


def _strat(kinds):
    from hypothesis import strategies as st
    spicy = ",=,=2C3Dab \u00e9\u00df\u7528\u6237\u03a9\u00aa\u00ad\u00a0\ufb01\U0001F600e\u0301"
    any_char = st.characters(min_codepoint=1, exclude_categories=["Cs"])
    mixed = st.one_of(st.sampled_from(spicy), st.sampled_from(spicy), any_char)
    ascii_print = st.characters(min_codepoint=0x20, max_codepoint=0x7e)
    users = st.one_of(
        st.text(alphabet=st.sampled_from(",=23CDa"), min_size=1, max_size=8),
        st.text(alphabet=mixed, min_size=1, max_size=24),
        st.text(alphabet=ascii_print, min_size=1, max_size=16),
        st.text(alphabet=any_char, min_size=1, max_size=40),
    )
    passwords = st.one_of(
        st.text(alphabet=mixed, min_size=1, max_size=24),
        st.text(alphabet=ascii_print, min_size=1, max_size=20),
        st.text(alphabet=any_char, min_size=1, max_size=40),
        st.text(alphabet=mixed, min_size=60, max_size=200),
    )
    salts = st.one_of(st.binary(min_size=1, max_size=64), st.binary(min_size=1, max_size=4),
                      st.binary(min_size=16, max_size=16), st.binary(min_size=17, max_size=63),
                      st.binary(min_size=64, max_size=64))
    low = st.integers(1, 64)
    iters = st.one_of(low, low, low, low, low, low, st.integers(65, 1024), st.integers(65, 1024),
                      st.sampled_from([1, 2, 4095, 4096, 4097, 8192, 10000, 19999, 20000]),
                      st.integers(1025, 20000))
    nonce_chars = st.characters(min_codepoint=0x21, max_codepoint=0x7e, exclude_characters=",")
    snonce = st.one_of(st.text(alphabet=nonce_chars, min_size=1, max_size=40),
                       st.text(alphabet=st.sampled_from("0123456789abcdef"), min_size=1, max_size=32))
    base = st.fixed_dictionaries({
        "user": users, "pw": passwords, "salt": salts, "iters": iters,
        "mech": st.sampled_from(sorted(MECHS)), "snonce": snonce,
        "kind": st.sampled_from(kinds), "k": st.integers(0, 1 << 16),
        "alt_pw": passwords, "alt_salt": salts, "alt_iters": st.one_of(low, st.integers(1, 2000)),
    })

    def fix(c):
        # "changed" must be a change: a server using the same value is simply honest
        if c["alt_salt"] == c["salt"]:
            c["alt_salt"] = c["salt"] + b"\x01" if len(c["salt"]) < 64 else c["salt"][:-1]
        if c["alt_iters"] == c["iters"]:
            c["alt_iters"] = c["iters"] + 1 if c["iters"] < 20000 else c["iters"] - 1
        if c["alt_pw"] == c["pw"]:
            c["alt_pw"] = c["pw"] + "x"
        return c

    return base.map(fix)


def campaigns(tier):
    thorough = tier == "thorough"
    return [
        Campaign("tamper_enum", "enum", execute=execute, cases=_enum, exhaustive=True),
        Campaign("honest_random", "hyp", execute=execute, strategy=lambda: _strat(HONEST_KINDS),
                 examples=60000 if thorough else 2000),
        Campaign("tamper_random", "hyp", execute=execute, strategy=lambda: _strat(TAMPER_KINDS),
                 examples=120000 if thorough else 4000),
        Campaign("handshake_loop", "hyp", execute=execute_handshake, strategy=_strat_handshake,
                 examples=20000 if thorough else 1600),
    ]
