"""C04 - committed offsets never pass undelivered records; no loss across crash/rebalance."""
from vlib.core import Outcome
from vlib.runner import Campaign

from . import _consumer_sim as CS
from . import _group_sim as GS
from . import c05, c06

ID = "C04"
LEVEL = "exploration"
RULE = ("Case = group of 1-3 real consumers over growing logs (external appends at drawn times), auto-commit "
        "(50-500 ms) or manual commit(), application loops of getone/getmany, members killed after their "
        "k-th request (no leave, no final commit), stopped, or started late, OffsetCommit/Heartbeat/JoinGroup/"
        "SyncGroup replies with retriable and membership error codes, dropped or lost, coordinator failover. "
        "Every OffsetCommit is judged at the moment the client writes it. Non-trivial = a kill/stop/rebalance "
        "happened with records consumed but not yet committed, or a commit was refused, or the committed offsets "
        "of one assignment were looked up in several requests. Distinct = distinct "
        "case value.")
ASSUMPTIONS = ["simulated group coordinator / offset store (vlib/simkafka/group.py); the start of an assignment epoch is taken "
               "from the OffsetFetch replies the simulator sent, not from client internals",
               "no user seeks; auto_offset_reset=earliest; no_loss is only judged when a member survives to drain"]


def evaluate(case, obs):
    out = Outcome()
    c = obs.cluster
    for e in c.harness_errors:
        raise RuntimeError("simulator error: %s" % e)
    if obs.deadlock:
        out.fail("no_loss", "deadlock", {"deadlock": obs.deadlock})
        return out
    for e in obs.events:
        if e["kind"] == "crash":
            out.fail("no_loss", "consumer_api_raised:" + e["error"], {"member": e["member"], "detail": e["detail"], "cause": e["cause"]})
    tmp = Outcome()
    info, vis = c05.delivery_checks(case, obs, tmp)
    # redelivery_rule = the epoch-start / in-epoch clauses of C05, reported under this property's name
    for f in tmp.failures:
        if f.clause == "no_stale_data":
            out.fail("redelivery_rule", f.site, f.detail)
    tl = c05.member_timelines(obs)
    # ---- commit_behind_delivery: judged at write time against that member's own deliveries
    fetch_given = {}
    for a in c.arrivals:
        if a.api == "offset_fetch" and a.delivered and a.extra.get("offsets_given"):
            fetch_given.setdefault(a.client_id, []).append((a.t_end, a.extra["offsets_given"]))
    refused = False
    uncommitted_at_event = False
    for a in c.arrivals:
        if a.api != "offset_commit":
            continue
        tag = a.client_id
        evs = tl.get(tag, [])
        com = a.extra.get("commit")
        if a.reply is not None:
            errs = {p["error"] for t in a.reply["topics"] for p in t["partitions"]}
            if errs - {0}:
                refused = True
        if a.fault is not None and a.fault.get("act") in ("error",):
            refused = True
        offs = {}
        for t in a.body["topics"]:
            for p in t["partitions"]:
                offs[GS.tpk(t["topic"], p["partition"])] = p["offset"]
        for tp, o in offs.items():
            # the assignment epoch this commit belongs to: the last assigned_begin containing tp before the write
            eps = [e for e in evs if e["kind"] == "assigned_begin" and tp in e["tps"] and e["t"] <= a.t_written + 1e-9]
            if not eps:
                out.fail("commit_behind_delivery", "commit_for_partition_never_assigned", {"member": tag, "tp": tp, "offset": o, "arrival": a.seq})
                continue
            ep = eps[-1]
            # epoch start: the committed offset this owner was given for tp at/after the epoch began (latest before the write)
            given = None
            for (t_end, g) in fetch_given.get(tag, []):
                if t_end <= a.t_written + 1e-9 and tp in g:
                    given = (t_end, g[tp])
            if given is None:
                continue            # position not established from a commit lookup yet: nothing to compare with
            s = given[1] if given[1] >= 0 else obs.final[tp]["log_start"]
            if s > obs.final[tp]["end"] or s < obs.final[tp]["log_start"]:
                s = obs.final[tp]["log_start"]
            delivered = {e["offset"] for e in evs if e["kind"] == "deliver" and e["tp"] == tp and e["t"] <= a.t_written + 1e-9
                         and e["t"] >= given[0] - 1e-9}
            # deliveries of earlier epochs of the same member also count when the partition stayed with it
            delivered_any = {e["offset"] for e in evs if e["kind"] == "deliver" and e["tp"] == tp and e["t"] <= a.t_written + 1e-9}
            need = [x for x in vis.get(tp, []) if s <= x < o]
            missing = [x for x in need if x not in delivered_any]
            if missing:
                out.fail("commit_behind_delivery", "commit_passes_undelivered_record",
                         {"member": tag, "tp": tp, "committed": o, "epoch_start": s, "undelivered": missing[:10], "arrival": a.seq,
                          "t_written": a.t_written, "generation": a.body.get("generation")})
            if o < s and not missing:
                out.label("commit_below_epoch_start")
    # ---- no_loss: survivors drained => every visible record from the group's initial start was delivered to someone
    survivors = [tag for tag, m in obs.members.items() if m["state"] == "stopped" and
                 any(e["kind"] == "stop_call" and e["member"] == tag and e.get("why") == "final" for e in obs.events)]
    if survivors and not obs.hung:
        sub_topics = set()
        for tag in survivors:
            last = [e for e in obs.events if e["kind"] == "subscribe" and e["member"] == tag]
            t = last[-1]["topics"] if last else []
            if isinstance(t, str):
                import re
                sub_topics |= {n for n in c.topics if re.match(t, n)}
            else:
                sub_topics |= set(t)
        all_deliv = {}
        for e in obs.events:
            if e["kind"] == "deliver":
                all_deliv.setdefault(e["tp"], set()).add(e["offset"])
        for tp, offs in vis.items():
            if tp.split(":")[0] not in sub_topics:
                continue
            missing = [x for x in offs if x not in all_deliv.get(tp, set())]
            if missing:
                out.fail("no_loss", "visible_record_never_delivered",
                         {"tp": tp, "missing": missing[:10], "survivors": survivors,
                          "committed": {k: v[0] for k, v in c.groups.groups["g"].offsets.items()} if "g" in c.groups.groups else None})
    else:
        out.label("no_survivor_to_drain")
    # ---- non-triviality
    for e in obs.events:
        if e["kind"] in ("killed", "stop_call", "revoked_begin") and e["member"] is not None:
            tag = e["member"]
            delivered_before = [d for d in tl.get(tag, []) if d["kind"] == "deliver" and d["seq"] < e["seq"]]
            if delivered_before:
                last = delivered_before[-1]
                commits = [a for a in c.arrivals if a.api == "offset_commit" and a.client_id == tag and a.t_written <= e["t"] and a.reply
                           and all(p["error"] == 0 for t in a.reply["topics"] for p in t["partitions"])]
                covered = any((a.extra.get("commit", {}).get("offsets", {}).get(last["tp"], -1) > last["offset"]) for a in commits)
                if not covered:
                    uncommitted_at_event = True
    # several committed-offset lookups inside one assignment epoch (partitions whose position is established late)
    split_lookup = False
    for tag, evs in tl.items():
        begins = [e["t"] for e in evs if e["kind"] == "assigned_begin"] + [float("inf")]
        of = sorted(a.t for a in c.arrivals if a.api == "offset_fetch" and a.client_id == tag)
        for lo, hi in zip(begins, begins[1:]):
            if sum(1 for t in of if lo - 0.5 <= t < hi) >= 2:
                split_lookup = True
    if split_lookup:
        out.label("committed_lookups_split_within_epoch")
    out.nontrivial = bool(uncommitted_at_event or refused or split_lookup)
    if uncommitted_at_event:
        out.label("membership_event_with_uncommitted_records")
    if refused:
        out.label("commit_refused")
    if obs.killed:
        out.label("member_killed")
    out.label("auto_commit" if case["cfg"].get("auto_commit") else "manual_commit")
    out.info = {"commits": sum(1 for a in c.arrivals if a.api == "offset_commit"),
                "delivered": sum(1 for e in obs.events if e["kind"] == "deliver"), "survivors": survivors,
                "vtime": round(obs.vtime, 1)}
    return out


def execute(case):
    return evaluate(case, GS.run(case))


def strategy():
    from hypothesis import strategies as st

    @st.composite
    def cases(draw):
        nodes = draw(st.integers(1, 2))
        topics = {"t0": draw(st.integers(1, 3))}
        cfg = {"assignors": [draw(st.sampled_from(["range", "roundrobin", "sticky"]))],
               "session_timeout_ms": draw(st.sampled_from([600, 1000])), "heartbeat_interval_ms": draw(st.sampled_from([50, 100])),
               "rebalance_timeout_ms": draw(st.sampled_from([800, 1500])), "retry_backoff_ms": draw(st.sampled_from([10, 50])),
               "auto_commit": draw(st.sampled_from([True, True, False])),
               "auto_commit_interval_ms": draw(st.sampled_from([50, 120, 500])), "metadata_max_age_ms": 1000}
        cfg["request_timeout_ms"] = cfg["rebalance_timeout_ms"] + 500
        nm = draw(st.integers(1, 3))
        members = []
        for i in range(nm):
            spec = {"topics": ["t0"], "start_at": draw(st.sampled_from([0.0, 0.0, 0.2, 0.8, 2.0])),
                    "callback_delay": draw(st.sampled_from([0, 0, 0.05])), "ops": [],
                    "max_poll_records": draw(st.sampled_from([None, 1, 2]))}
            if draw(st.integers(0, 5)) == 0:
                mod = draw(st.sampled_from([2, 3, 5]))
                spec["deser_fail"] = {"mod": mod, "rem": draw(st.integers(0, mod - 1))}
            for _ in range(draw(st.integers(0, 14))):
                r = draw(st.integers(0, 9))
                if r <= 5:
                    spec["ops"].append(["poll", draw(st.sampled_from(["getmany", "getone"])), draw(st.sampled_from([0.03, 0.1])),
                                        draw(st.sampled_from([None, 1, 2]))])
                elif r <= 6:
                    spec["ops"].append(["sleep", draw(st.sampled_from([0.01, 0.1, 0.4]))])
                elif r <= 8:
                    spec["ops"].append(["commit"])
                else:
                    spec["ops"].append(["stop"])
                    break
            members.append(spec)
        kills = []
        if draw(st.integers(0, 2)) == 0:
            kills.append({"member": "m%d" % draw(st.integers(0, nm - 1)), "after": draw(st.integers(8, 80))})
        faults = []
        for _ in range(draw(st.integers(0, 6))):
            sel = draw(st.sampled_from(["offset_commit", "offset_commit", "offset_commit", "heartbeat", "join", "sync", "fetch",
                                        "offset_fetch"]))
            act = draw(st.sampled_from(["error", "error", "drop", "apply_drop", "no_reply", "delay"]))
            faults.append({"sel": sel, "k": draw(st.integers(0, 10)), "act": act, "code": draw(st.sampled_from(c06.ERR[sel])),
                           "delay": draw(st.sampled_from([0.05, 0.4]))})
        env = []
        for _ in range(draw(st.integers(1, 6))):
            env.append({"at": draw(st.sampled_from([0.1, 0.3, 0.6, 1.0, 1.5, 2.2, 3.0])), "ev": "append",
                        "tp": ["t0", draw(st.integers(0, topics["t0"] - 1))], "n": draw(st.integers(1, 4))})
        if draw(st.integers(0, 2)) == 0:
            # a partition without a leader for a while: its position is established later than its siblings'
            at = draw(st.sampled_from([0.0, 0.0, 0.15, 0.7, 1.4]))
            env.append({"at": at, "ev": "leader_gone", "topic": "t0", "partition": draw(st.integers(0, topics["t0"] - 1)),
                        "back_at": at + draw(st.sampled_from([0.03, 0.1, 0.25, 0.6]))})
        if nodes > 1 and draw(st.integers(0, 3)) == 0:
            env.append({"at": draw(st.sampled_from([0.5, 1.5])), "ev": "move_group_coord", "to": draw(st.integers(0, 1)),
                        "keep_state": draw(st.booleans())})
        return {"cfg": cfg, "cluster": {"nodes": nodes, "topics": topics, "join_max": draw(st.sampled_from([5, 5, 2, 0])),
                                        "group_coord": draw(st.integers(0, 1)), "initial": [3, 2, 4]},
                "members": members, "kills": kills, "faults": faults, "env": env, "run_for": 3.5,
                "lat": draw(st.lists(st.sampled_from([0.0005, 0.001, 0.004]), min_size=1, max_size=3)),
                "chunks": [0], "rng_seed": draw(st.integers(0, 2 ** 31)),
                "debug_log": draw(st.integers(0, 7)) == 0}
    return cases()


def late_lookup_cases(shard, nshards):
    """m0 consumes, commits and stops; m1 takes both partitions over while one of them has no leader until a swept
    instant and every round trip is slow: that partition's committed-offset lookup is registered while the
    lookup for its sibling is in flight.  The new owner must still start it from the group's committed offset."""
    i = 0
    for lat in (0.02, 0.004):
        for auto in (True, False):
            for back in [round(0.20 + 0.02 * j, 2) for j in range(36)]:
                i += 1
                if i % nshards != shard:
                    continue
                cfg = {"assignors": ["range"], "session_timeout_ms": 1000, "heartbeat_interval_ms": 100,
                       "rebalance_timeout_ms": 1500, "retry_backoff_ms": 10, "auto_commit": auto,
                       "auto_commit_interval_ms": 120, "metadata_max_age_ms": 1000, "request_timeout_ms": 2000}
                m0 = {"topics": ["t0"], "start_at": 0.0, "callback_delay": 0, "max_poll_records": 2,
                      "ops": [["poll", "getmany", 0.1, 2]] * 3 + [["commit"], ["stop"]]}
                m1 = {"topics": ["t0"], "start_at": 2.0, "callback_delay": 0, "max_poll_records": None,
                      "ops": [["poll", "getmany", 0.1, None]] * 6 + [["commit"]]}
                yield {"cfg": cfg, "cluster": {"nodes": 2, "topics": {"t0": 2}, "join_max": 5, "group_coord": 0, "initial": [3, 2, 4]},
                       "members": [m0, m1], "kills": [],
                       # m0 looks its offsets up once (k=0); m1's first lookup is held at the coordinator
                       "faults": [{"sel": "offset_fetch", "k": 1, "act": "delay", "code": 0, "delay": 0.3}],
                       "env": [{"at": 1.9, "ev": "leader_gone", "topic": "t0", "partition": 1, "back_at": 2.0 + back}],
                       "run_for": 4.0, "lat": [lat], "chunks": [0], "rng_seed": 5}


def campaigns(tier):
    th = tier == "thorough"
    return [Campaign("late_lookup", "enum", execute=execute, cases=late_lookup_cases, exhaustive=True, setup=GS.setup),
            Campaign("commit_sim", "hyp", execute=execute, strategy=strategy, examples=12000 if th else 1280,
                     setup=GS.setup, max_wall=1000 if th else 110, shrink_wall=40)]
