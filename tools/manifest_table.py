NOT_YET = {}
CHECKS = {
 "C17": dict(level="exploration",
   technique="exhaustive enumeration of short keys + Hypothesis random keys against an int32 transcription of Java murmur2",
   text="Differential test of murmur2()/DefaultPartitioner against an independent Java-semantics reference: exhaustive over all keys of length 0..2 and all keys of length 0..7 over {00,7f,80,ff} (every tail length x every sign pattern), random keys up to 4 KiB x partition counts 1..1000 x availability subsets; unkeyed calls must land in the available set. Exhaustive on the stated sub-domains, sampled beyond.",
   note="Trusted: the Java reference transcription in props/c17.py (self-checked against Kafka's UtilsTest vectors at import); all_partitions passed sorted as the partitioner contract states."),
}
