"""Virtual-time asyncio loop and in-memory network.

The harness owns the clock and the network, so interleavings of application
tasks with network events, timeouts and faults are *values* that generators
draw and shrinkers minimise.  No change to /repo is needed: conn.py calls
`loop.create_connection` and every clock read goes through `time.*` (patched
per aiokafka module by install_time_shim) or `loop.time()`.
"""
import asyncio
import heapq
import selectors
import sys
import time as _real_time
import types

EPOCH = 1_600_000_000.0
EPS = 2.5e-6     # > VirtualLoop.tick: successive deliveries on one connection land in different loop iterations


class Deadlock(Exception):
    """Nothing is runnable and no timer is pending while the main coroutine is unfinished."""


class BusyLoop(Exception):
    """The loop keeps running callbacks without virtual time ever advancing (a spin)."""


class VirtualTimeLimit(Exception):
    """Virtual time cap for one case exceeded (only periodic timers keep firing)."""


class _FakeSelector(selectors.BaseSelector):
    def __init__(self, loop):
        self._loop = loop
        self._keys = {}

    def register(self, fileobj, events, data=None):
        key = selectors.SelectorKey(fileobj, fileobj if isinstance(fileobj, int) else fileobj.fileno(), events, data)
        self._keys[key.fd] = key
        return key

    def unregister(self, fileobj):
        fd = fileobj if isinstance(fileobj, int) else fileobj.fileno()
        return self._keys.pop(fd, None)

    def modify(self, fileobj, events, data=None):
        self.unregister(fileobj)
        return self.register(fileobj, events, data)

    def select(self, timeout=None):
        loop = self._loop
        if timeout is None:
            raise Deadlock("deadlock at virtual time %.6f" % loop._vtime)
        if timeout <= 0:
            # every loop iteration costs a little time, as on a real clock; without this a
            # deadline that is a few ulps away is never reached (now + 1e-18 == now)
            loop._vtime += loop.tick
            loop._spin += 1
            if loop._spin > loop.spin_cap:
                raise BusyLoop("%d loop iterations without virtual time advancing at %.6f"
                               % (loop._spin, loop._vtime))
        if timeout > 0:
            loop._spin = 0
            sched = loop._scheduled
            if sched:
                when = sched[0]._when
                loop._vtime = max(loop._vtime, when)
            else:
                loop._vtime += timeout
            if loop._vtime > loop.vtime_cap:
                raise VirtualTimeLimit("virtual time cap %.1f s exceeded" % loop.vtime_cap)
        return []

    def get_map(self):
        return self._keys

    def close(self):
        self._keys.clear()


class VirtualLoop(asyncio.SelectorEventLoop):
    def __init__(self, vtime_cap=3600.0):
        self._vtime = 0.0
        self.vtime_cap = vtime_cap
        self.events = 0            # timer firings + network deliveries
        self.on_event = None       # callback(n) after each event
        self.net = None
        self._spin = 0
        self.spin_cap = 200000
        self.tick = 1e-6
        self.exc_log = []          # contexts passed to the loop's exception handler
        super().__init__(selector=_FakeSelector(self))
        self._clock_resolution = 1e-9
        self.set_exception_handler(lambda loop, ctx: self.exc_log.append(
            {"message": ctx.get("message"), "exception": repr(ctx.get("exception"))}))

    def time(self):
        return self._vtime

    # every timer firing is an "event"
    def call_at(self, when, callback, *args, context=None):
        def fire(*a):
            self.events += 1
            callback(*a)
            if self.on_event is not None:
                self.on_event(self.events)
        fire._v_inner = callback
        return super().call_at(when, fire, *args, context=context)

    async def create_connection(self, protocol_factory, host=None, port=None, *, ssl=None, **kw):
        if self.net is None:
            raise ConnectionRefusedError("no simulated network")
        return await self.net.connect(self, protocol_factory, host, port)

    def run_in_executor(self, executor, func, *args):
        fut = self.create_future()
        try:
            fut.set_result(func(*args))
        except Exception as e:  # pragma: no cover
            fut.set_exception(e)
        return fut

    async def getaddrinfo(self, host, port, **kw):  # never touch real DNS
        return [(2, 1, 6, "", (host, port))]

    def pending_timers(self, include_harness=False):
        out = []
        for h in self._scheduled:
            if h._cancelled:
                continue
            if not include_harness and is_harness_callback(getattr(h._callback, "_v_inner", h._callback)):
                continue
            out.append(h)
        return out


def is_harness_callback(cb):
    """True for timers created by the verification harness itself (simulated brokers etc.)."""
    f = getattr(cb, "__func__", cb)
    f = getattr(f, "func", f)            # functools.partial
    mod = getattr(f, "__module__", "") or ""
    return mod.startswith(("vlib.", "props."))


class TimeShim(types.ModuleType):
    """Stands in for the `time` module inside aiokafka modules."""

    def __init__(self):
        super().__init__("time")
        self._loop = None

    def monotonic(self):
        if self._loop is not None:
            return self._loop._vtime
        return _real_time.monotonic()

    def time(self):
        if self._loop is not None:
            return EPOCH + self._loop._vtime
        return _real_time.time()

    def __getattr__(self, name):
        return getattr(_real_time, name)


SHIM = TimeShim()


def install_time_shim():
    """Replace the `time` module reference in every loaded aiokafka module."""
    n = 0
    for name, mod in list(sys.modules.items()):
        if mod is None or not (name == "aiokafka" or name.startswith("aiokafka.")):
            continue
        d = getattr(mod, "__dict__", None)
        if not d:
            continue
        for k, v in list(d.items()):
            if v is _real_time:
                d[k] = SHIM
                n += 1
            elif v is _real_time.monotonic:
                d[k] = SHIM.monotonic
                n += 1
            elif v is _real_time.time:
                d[k] = SHIM.time
                n += 1
    return n


def set_clock_loop(loop):
    SHIM._loop = loop


class Cyclic:
    """A short list consumed cyclically (drawn latency / chunk streams)."""

    def __init__(self, values, default=0):
        self.values = list(values) or [default]
        self.i = 0

    def next(self):
        v = self.values[self.i % len(self.values)]
        self.i += 1
        return v


class MemTransport(asyncio.Transport):
    def __init__(self, loop, protocol, server_conn, net):
        super().__init__()
        self._loop = loop
        self._protocol = protocol
        self._peer = server_conn
        self._net = net
        self._closing = False
        self._closed = False
        self._paused = False
        self._pending = []
        self.written = []      # (vtime, bytes)

    # --- client side API
    def write(self, data):
        if self._closing:
            return
        if getattr(self, "fail_next_write", None) is not None:
            exc, self.fail_next_write = self.fail_next_write, None
            raise exc           # what a transport over a dead socket / TLS layer can do (EPIPE, ETIMEDOUT, SSLError)
        data = bytes(data)
        self.written.append((self._loop._vtime, data))
        self._peer._client_wrote(data)

    def writelines(self, ls):
        self.write(b"".join(ls))

    def can_write_eof(self):
        return False

    def is_closing(self):
        return self._closing

    def close(self):
        if self._closing:
            return
        self._closing = True
        self._peer._client_closed()
        self._loop.call_soon(self._lost, None)

    def abort(self):
        self.close()

    def get_extra_info(self, name, default=None):
        if name == "peername":
            return (self._peer.host, self._peer.port)
        return default

    def get_write_buffer_size(self):
        return 0

    def get_write_buffer_limits(self):
        return (0, 0)

    def set_write_buffer_limits(self, high=None, low=None):
        pass

    def pause_reading(self):
        self._paused = True

    def resume_reading(self):
        self._paused = False
        pend, self._pending = self._pending, []
        for kind, arg in pend:
            if kind == "data":
                self._feed(arg)
            else:
                self._remote_close(arg)

    def is_reading(self):
        return not self._paused and not self._closing

    # --- network side
    def _lost(self, exc):
        if self._closed:
            return
        self._closed = True
        self._net._transport_closed(self)
        try:
            self._protocol.connection_lost(exc)
        except Exception:  # pragma: no cover
            pass

    def _feed(self, data):
        if self._closing or self._closed:
            return
        if self._paused:
            self._pending.append(("data", data))
            return
        self._protocol.data_received(data)

    def _remote_close(self, exc):
        """Peer closed (exc None = EOF) or reset (exc = ConnectionResetError)."""
        if self._closing or self._closed:
            return
        if self._paused:
            self._pending.append(("close", exc))
            return
        if exc is None:
            try:
                keep = self._protocol.eof_received()
            except Exception:  # pragma: no cover
                keep = False
            if keep:
                return
        self._closing = True
        self._lost(exc)


class ServerConn:
    """Broker side of one in-memory connection."""

    def __init__(self, net, host, port, handler, conn_id):
        self.net = net
        self.loop = net.loop
        self.host = host
        self.port = port
        self.handler = handler
        self.conn_id = conn_id
        self.transport = None
        self.buf = bytearray()
        self.closed = False           # no more delivery in either direction
        self.client_closed = False
        self._c2s_t = 0.0
        self._s2c_t = 0.0
        self._c2s_q = []
        self._s2c_q = []
        self._notified = False
        self.raw_mode = False         # frames are not length-prefixed requests (SASL legacy)

    # client -> server.  Delivery callbacks pop a FIFO, so the byte order never depends on
    # how the loop breaks ties between timers with equal deadlines.
    def _client_wrote(self, data):
        if self.closed:
            return
        # strictly increasing delivery instants: a real loop never hands two socket events of
        # one connection to the protocol before tasks woken by the first had a chance to run
        t = max(self._c2s_t + EPS, self.loop._vtime + self.net.latency())
        self._c2s_t = t
        self._c2s_q.append((data, self.loop._vtime))
        self.loop.call_at(t, self._arrive)

    def _arrive(self):
        if not self._c2s_q:
            return
        data, t_written = self._c2s_q.pop(0)
        if self.closed:
            return
        self.buf += data
        while not self.closed and len(self.buf) >= 4:
            n = int.from_bytes(self.buf[:4], "big", signed=True)
            if n < 0 or len(self.buf) < 4 + n:
                break
            frame = bytes(self.buf[4:4 + n])
            del self.buf[:4 + n]
            self.handler.on_frame(self, frame, t_written)

    def _client_closed(self):
        self.client_closed = True
        self.closed = True
        self._notify_disconnect(soon=True)

    def _notify_disconnect(self, soon=False):
        if self._notified:
            return
        self._notified = True
        h = getattr(self.handler, "on_disconnect", None)
        if h:
            if soon:
                self.loop.call_soon(h, self)
            else:
                h(self)

    # server -> client
    def send_frame(self, payload, delay=None, chunks=None):
        """Send a length-prefixed frame; `chunks` = list of chunk sizes (cyclic)."""
        self.send_raw(len(payload).to_bytes(4, "big") + payload, delay, chunks)

    def send_raw(self, data, delay=None, chunks=None):
        if self.closed:
            return
        d = self.net.latency() if delay is None else delay
        t = max(self._s2c_t + EPS, self.loop._vtime + d)
        pieces = self.net.split(data) if chunks is None else _split(data, chunks)
        for i, p in enumerate(pieces):
            if i:
                t += max(EPS, self.net.chunk_gap())
            self._s2c_q.append(("data", p))
            self.loop.call_at(t, self._deliver)
        self._s2c_t = t

    def _deliver(self):
        if not self._s2c_q:
            return
        kind, arg = self._s2c_q.pop(0)
        if kind == "close":
            self._do_close(arg)
            return
        if self.closed or self.transport is None:
            return
        self.loop.events += 0
        self.transport._feed(arg)

    def close(self, delay=0.0, reset=False):
        """Server closes the connection (EOF, or RST when reset)."""
        if self.closed:
            return
        t = max(self._s2c_t + EPS, self.loop._vtime + delay)
        self._s2c_t = t
        self._s2c_q.append(("close", reset))
        self.loop.call_at(t, self._deliver)

    def _do_close(self, reset):
        if self.closed and self._notified:
            return
        self.closed = True
        self._notify_disconnect()
        if self.transport is not None:
            self.transport._remote_close(ConnectionResetError("simulated reset") if reset else None)

    def blackhole(self):
        """Stop delivering anything in either direction, without closing."""
        self.closed = True


def _split(data, sizes):
    out = []
    pos = 0
    i = 0
    sizes = [s for s in sizes if s > 0] or [len(data)]
    while pos < len(data):
        s = sizes[i % len(sizes)]
        out.append(data[pos:pos + s])
        pos += s
        i += 1
    return out


class Net:
    """In-memory network: listeners by (host, port); drawn latencies and chunking."""

    def __init__(self, loop, latencies=(0.001,), chunks=(0,), connect_latencies=(0.001,),
                 chunk_gaps=(0.0,)):
        self.loop = loop
        loop.net = self
        self.listeners = {}
        self._lat = Cyclic(latencies, 0.001)
        self._chunks = Cyclic(chunks, 0)
        self._clat = Cyclic(connect_latencies, 0.001)
        self._gap = Cyclic(chunk_gaps, 0.0)
        self.open_transports = set()
        self.connections = []
        self.connect_log = []
        self._next_id = 0

    def latency(self):
        return max(0.0, float(self._lat.next()))

    def chunk_gap(self):
        return max(0.0, float(self._gap.next()))

    def split(self, data):
        """Split by the drawn chunk stream; 0 = rest of the data in one piece."""
        out = []
        pos = 0
        while pos < len(data):
            s = int(self._chunks.next())
            if s <= 0:
                out.append(data[pos:])
                break
            out.append(data[pos:pos + s])
            pos += s
        return out

    def listen(self, host, port, handler):
        """handler: object with on_frame(conn, frame) [, on_connect(conn), on_disconnect(conn),
        accept(host, port) -> 'ok' | 'refuse' | 'blackhole']"""
        self.listeners[(host, port)] = handler

    async def connect(self, loop, protocol_factory, host, port):
        handler = self.listeners.get((host, port))
        mode = "refuse" if handler is None else "ok"
        if handler is not None and hasattr(handler, "accept"):
            mode = handler.accept(host, port)
        self.connect_log.append((loop._vtime, host, port, mode))
        await asyncio.sleep(max(0.0, float(self._clat.next())))
        if mode == "refuse":
            raise ConnectionRefusedError(111, "simulated connection refused %s:%s" % (host, port))
        if mode == "blackhole":
            await loop.create_future()     # never completes; the caller's timeout fires
        self._next_id += 1
        sc = ServerConn(self, host, port, handler, self._next_id)
        protocol = protocol_factory()
        tr = MemTransport(loop, protocol, sc, self)
        sc.transport = tr
        self.open_transports.add(tr)
        self.connections.append(sc)
        protocol.connection_made(tr)
        h = getattr(handler, "on_connect", None)
        if h:
            h(sc)
        loop.events += 1
        return tr, protocol

    def _transport_closed(self, tr):
        self.open_transports.discard(tr)


def run_case(main_factory, *, net_kwargs=None, vtime_cap=3600.0, setup=None):
    """Run `await main_factory(loop, net)` on a fresh VirtualLoop.

    Returns (result, exc, loop, net): exc is Deadlock / VirtualTimeLimit / any exception
    raised by main.  The caller inspects leaks via loop/net before calling finish(loop).
    """
    loop = VirtualLoop(vtime_cap=vtime_cap)
    net = Net(loop, **(net_kwargs or {}))
    set_clock_loop(loop)
    asyncio.set_event_loop(loop)
    result = exc = None
    try:
        if setup:
            setup(loop, net)
        result = loop.run_until_complete(main_factory(loop, net))
    except (Deadlock, VirtualTimeLimit, BusyLoop) as e:
        exc = e
    except BaseException as e:  # noqa
        exc = e
    return result, exc, loop, net


def leftover(loop, net):
    """What is still alive on the loop: (tasks, timers, transports)."""
    tasks = [t for t in asyncio.all_tasks(loop) if not t.done()]
    timers = loop.pending_timers()
    return tasks, timers, list(net.open_transports)


def finish(loop):
    """Dispose of a loop (cancelling what is left) without running real I/O."""
    try:
        for t in asyncio.all_tasks(loop):
            t.cancel()
        # let cancellations run; bounded
        for _ in range(50):
            if not [t for t in asyncio.all_tasks(loop) if not t.done()]:
                break
            try:
                loop.run_until_complete(asyncio.sleep(0))
            except BaseException:
                break
    except BaseException:
        pass
    set_clock_loop(None)
    try:
        asyncio.set_event_loop(None)
        loop.close()
    except BaseException:
        pass
